#!/bin/sh
# usage: run_mutations.sh [diff...]  — applies each diff under mutations/ to a scratch worktree of /repo and
# runs the property's check against it (static half only unless FULL=1); one outcome block per mutation.
# C14 mutations are applied ON TOP of the four fixes/c14-*.patch, so that the baseline is clean.
M=/verif/wip/abi-static/mutations
WT=/tmp/wt-abi
export VERIF_CACHE=${VERIF_CACHE:-/var/tmp/isal-verif-cache-abi}
[ -d $WT ] || git -C /repo worktree add --detach $WT HEAD >/dev/null
for d in ${@:-$M/*.diff}; do
  n=$(basename $d .diff)
  pid=$(echo $n | cut -c1-3 | tr a-z A-Z)
  (cd $WT && git checkout -q .)
  if [ $pid = C14 ]; then
    for f in /verif/fixes/c14-*.patch; do (cd $WT && patch -p1 -s < $f) || echo "$n: FIX PATCH $f FAILED"; done
  fi
  [ -s $d ] && { (cd $WT && patch -p1 -s < $d) || { echo "$n: PATCH FAILED"; continue; }; }
  if [ -n "$FULL" ]; then out=$(cd /verif && VERIF_REPO=$WT ./check $pid 2>&1); else out=$(cd /verif && ABI_STATIC_ONLY=1 VERIF_REPO=$WT ./check $pid 2>&1); fi
  rc=$?
  echo "== $n ($pid) rc=$rc violations=$(echo "$out" | grep -c '^VIOLATION')"
  echo "$out" | grep "^OK\|KNOWN" | head -3
  echo "$out" | grep "detail" | head -4
  cp /verif/evidence/$pid.json $M/$n.evidence.json 2>/dev/null
done
(cd $WT && git checkout -q .)
