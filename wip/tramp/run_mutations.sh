#!/bin/sh
# self-validation runner: applies each diff under wip/tramp/mutations to a scratch worktree of
# /repo and runs the dynamic half it is aimed at.  usage: wip/tramp/run_mutations.sh [pattern]
W=/tmp/wt-tramp
M=/verif/wip/tramp/mutations
export VERIF_REPO=$W VERIF_CACHE=/var/tmp/isal-verif-cache-tramp PYTHONPATH=/verif/lib
[ -d $W ] || git -C /repo worktree add --detach $W HEAD
cd /verif
for d in $M/${1:-*}.diff; do
  n=$(basename $d .diff)
  git -C $W checkout -- . && (cd $W && patch -s -p1 < $d) || { echo "$n: patch failed"; continue; }
  case $n in
    c19_*) cmd="python3 checks/tramp.py c19"; ev=C19dyn;;
    c14_*) cmd="python3 checks/tramp.py c14"; ev=C14dyn;;
    c20_*) cmd="python3 checks/c20.py"; ev=C20dyn;;
  esac
  $cmd > $M/$n.log 2>&1; rc=$?
  cp /verif/evidence/$ev.json $M/$n.evidence.json
  echo "== $n rc=$rc $(grep -c '^VIOLATION' $M/$n.log) violation lines"
  grep "detail:" $M/$n.log | cut -c1-220 | head -6
done
git -C $W checkout -- .
