#!/bin/sh
# usage: run_mutation.sh <diff> : apply to the scratch worktree /tmp/wt-gcm, run C02 and C07 quick, revert
set -e
WT=/tmp/wt-gcm
[ -d $WT ] || git -C /repo worktree add --detach $WT HEAD >/dev/null 2>&1
git -C $WT checkout -- .
(cd $WT && patch -p1 -s < "$1")
export VERIF_CACHE=/var/tmp/isal-verif-cache-gcm VERIF_REPO=$WT
cd /verif
for p in C02 C07; do
  echo "=== $(basename $1) $p"
  ./check $p 2>&1 | grep -v '^WARNING' | tail -n 8 || true
  ls -t replays/$p-*.json 2>/dev/null | head -n 1
done
git -C $WT checkout -- .
