(* AES-GCM: the streaming model (Model/GcmStream.v) against SP 800-38D stated over an
   abstract block cipher E, hash key H and block-deferral policy defer.
   Main results: update_inv (the invariant of DESIGN C07 is kept by every update, and the
   outputs are the GCTR stream), stream_is_spec, oneshot_is_stream. *)
From Coq Require Import NArith List Bool Arith Lia.
From ISAL Require Import Base.Words Base.ListUtil Spec.AES Spec.GF128 Spec.GCM Model.GcmStream
  Proofs.WordsFacts Proofs.ListFacts Proofs.ChunkFacts Proofs.GcmFacts.
Import ListNotations.
Local Open Scope nat_scope.

Arguments add64 : simpl never.
Arguments inc32 : simpl never.
Arguments gf128_mul_bytes : simpl never.

Lemma len16_nonnil {A} (l : list A) : length l = 16 -> l <> [].
Proof. intros Hl Hn. rewrite Hn in Hl. discriminate. Qed.

Lemma length_inc32 cb : length cb = 16 -> length (inc32 cb) = 16.
Proof.
  intros Hc. unfold inc32, inc32_by. rewrite app_length, firstn_length, length_N_to_be. lia.
Qed.

Lemma length_iter_inc32 k cb : length cb = 16 -> length (Nat.iter k inc32 cb) = 16.
Proof. intros Hc. induction k; cbn [Nat.iter]; [exact Hc|apply length_inc32; exact IHk]. Qed.

Lemma iter_succ_r {A} (f : A -> A) k x : Nat.iter (S k) f x = Nat.iter k f (f x).
Proof. induction k; [reflexivity|]. change (f (Nat.iter (S k) f x) = f (Nat.iter k f (f x))). f_equal. exact IHk. Qed.

Lemma iter_plus {A} (f : A -> A) a b x : Nat.iter a f (Nat.iter b f x) = Nat.iter (a + b) f x.
Proof. induction a; [reflexivity|]. change (f (Nat.iter a f (Nat.iter b f x)) = f (Nat.iter (a + b) f x)). f_equal. exact IHa. Qed.

Section Stream.
Variable E : list N -> list N.
Hypothesis E_len : forall b, length b = 16 -> length (E b) = 16.
Variable H : list N.
Variable defer : nat -> bool.

(* ------------------------------------------------------------------ GCTR over E *)

Fixpoint gctr_blocks_E (cb : list N) (blocks : list (list N)) : list N :=
  match blocks with
  | [] => []
  | b :: r => xorb_list b (E cb) ++ gctr_blocks_E (inc32 cb) r
  end.
Definition gctr_E (icb x : list N) : list N := gctr_blocks_E icb (chunks 16 x).

Lemma gctr_blocks_E_app cb l1 l2 :
  gctr_blocks_E cb (l1 ++ l2) = gctr_blocks_E cb l1 ++ gctr_blocks_E (Nat.iter (length l1) inc32 cb) l2.
Proof.
  revert cb. induction l1 as [|b l1 IH]; intros cb; [reflexivity|].
  cbn [app gctr_blocks_E length]. rewrite IH, iter_succ_r, app_assoc. reflexivity.
Qed.

Lemma gctr_E_nil cb : gctr_E cb [] = [].
Proof. reflexivity. Qed.

Lemma gctr_E_split cb Xc t q : length Xc = q * 16 ->
  gctr_E cb (Xc ++ t) = gctr_E cb Xc ++ gctr_E (Nat.iter q inc32 cb) t.
Proof.
  intros Hq. unfold gctr_E. rewrite chunks_app by (try lia; exists q; exact Hq).
  rewrite gctr_blocks_E_app, (length_chunks_exact Xc q Hq). reflexivity.
Qed.

Lemma gctr_E_short cb t : t <> [] -> length t <= 16 -> gctr_E cb t = xorb_list t (E cb).
Proof.
  intros Ht Hl. unfold gctr_E. rewrite chunks_short by assumption.
  cbn [gctr_blocks_E]. apply app_nil_r.
Qed.

Lemma length_gctr_blocks_E cb blocks : Forall (fun b => length b = 16) blocks -> length cb = 16 ->
  length (gctr_blocks_E cb blocks) = length blocks * 16.
Proof.
  revert cb. induction blocks as [|b r IH]; intros cb Hf Hc; [reflexivity|].
  inversion Hf as [|? ? Hb Hr]; subst. cbn [gctr_blocks_E length].
  rewrite app_length, xorb_length, Hb, (E_len cb Hc), IH by (try apply length_inc32; assumption).
  cbn. lia.
Qed.

Lemma length_gctr_E_exact cb Xc q : length Xc = q * 16 -> length cb = 16 ->
  length (gctr_E cb Xc) = q * 16.
Proof.
  intros Hq Hc. unfold gctr_E.
  rewrite length_gctr_blocks_E by (try exact Hc; apply (Forall_chunks_exact Xc q Hq)).
  rewrite (length_chunks_exact Xc q Hq). reflexivity.
Qed.

(* ------------------------------------------------------------------ the bulk loop *)

Lemma gcm_bulk_spec enc blocks : forall ctr y,
  Forall (fun b => length b = 16) blocks -> length ctr = 16 ->
  gcm_bulk E H enc ctr y blocks =
  (gctr_blocks_E (inc32 ctr) blocks,
   (Nat.iter (length blocks) inc32 ctr,
    ghash_blocks H y (if enc then gctr_blocks_E (inc32 ctr) blocks else concat blocks))).
Proof.
  induction blocks as [|b r IH]; intros ctr y Hf Hc.
  - cbn. destruct enc; reflexivity.
  - inversion Hf as [|? ? Hb Hr]; subst.
    assert (Hc1 : length (inc32 ctr) = 16) by (apply length_inc32; exact Hc).
    cbn [gcm_bulk]. rewrite IH by assumption.
    cbn [gctr_blocks_E length concat]. rewrite iter_succ_r. f_equal. f_equal.
    set (o := xorb_list b (E (inc32 ctr))).
    assert (Ho : length o = 16) by (unfold o; rewrite xorb_length, Hb, (E_len _ Hc1); reflexivity).
    destruct enc.
    + rewrite (ghash_blocks_app H y o) by (exists 1; lia).
      rewrite (ghash_blocks_one H y o) by (try lia; apply (len16_nonnil _ Ho)).
      rewrite pad16_full by exact Ho. reflexivity.
    + rewrite (ghash_blocks_app H y b) by (exists 1; lia).
      rewrite (ghash_blocks_one H y b) by (try lia; apply (len16_nonnil _ Hb)).
      rewrite pad16_full by exact Hb. reflexivity.
Qed.

(* ------------------------------------------------------------------ the invariant *)

Variables (iv aad : list N) (enc : bool).
Hypothesis iv_len : length iv = 12.

Definition J0 : list N := iv ++ [0; 0; 0; 1]%N.
Definition YA : list N := ghash_blocks H (zeros 16) aad.
Definition ctrs (k : nat) : list N := Nat.iter k inc32 J0.
(* the GCTR stream of SP 800-38D: output for the whole input X *)
Definition O (X : list N) : list N := gctr_E (inc32 J0) X.
(* the ciphertext side of (input, output) *)
Definition side (x o : list N) : list N := if enc then o else x.

Lemma length_J0 : length J0 = 16.
Proof. unfold J0. rewrite app_length, iv_len. reflexivity. Qed.

Lemma length_ctrs k : length (ctrs k) = 16.
Proof. apply length_iter_inc32, length_J0. Qed.

Lemma length_YA : length YA = 16.
Proof. apply length_ghash_blocks. apply length_zeros. Qed.

Lemma iter_ctrs a b : Nat.iter a inc32 (ctrs b) = ctrs (a + b).
Proof. apply iter_plus. Qed.

Lemma inc32_ctrs k : inc32 (ctrs k) = ctrs (S k).
Proof. reflexivity. Qed.

Lemma side_app x1 o1 x2 o2 : side (x1 ++ x2) (o1 ++ o2) = side x1 o1 ++ side x2 o2.
Proof. unfold side. destruct enc; reflexivity. Qed.

Lemma O_split Xc t q : length Xc = q * 16 -> O (Xc ++ t) = O Xc ++ gctr_E (ctrs (S q)) t.
Proof.
  intros Hq. unfold O. rewrite (gctr_E_split _ Xc t q Hq).
  change (inc32 J0) with (ctrs 1). rewrite iter_ctrs. replace (q + 1) with (S q) by lia. reflexivity.
Qed.

Lemma length_O_exact Xc q : length Xc = q * 16 -> length (O Xc) = q * 16.
Proof. intros Hq. apply length_gctr_E_exact; [exact Hq|apply (length_ctrs 1)]. Qed.

Lemma length_side_exact Xc q : length Xc = q * 16 -> length (side Xc (O Xc)) = q * 16.
Proof. intros Hq. unfold side. destruct enc; [apply length_O_exact|]; exact Hq. Qed.

(* what the context means after the input X: X = closed blocks Xc ++ open block t *)
Definition Inv (c : gcm_ctx) (X : list N) : Prop :=
  exists Xc t q,
    X = Xc ++ t /\ length Xc = q * 16 /\ length t = pb_len c /\ length t <= 16 /\
    rev (aad_hash c) =
      xorb_list (ghash_blocks H YA (side Xc (O Xc)))
                (pad16 (side t (xorb_list t (E (ctrs (S q)))))) /\
    rev (cur_counter c) = ctrs (match t with [] => q | _ => S q end) /\
    (t <> [] -> pb_enc_key c = E (ctrs (S q))) /\
    orig_IV c = J0 /\ aad_length c = N.of_nat (length aad).

Lemma init_inv : Inv (gcm_init H iv aad) [].
Proof.
  exists [], [], 0. unfold gcm_init. cbn [aad_hash cur_counter pb_len pb_enc_key orig_IV aad_length].
  rewrite firstn_all2 by lia. fold J0. fold YA. rewrite !rev_involutive.
  repeat split; try reflexivity; try (cbn; lia).
  - unfold O. rewrite gctr_E_nil. unfold side. replace (if enc then [] else []) with (@nil N) by (destruct enc; reflexivity).
    rewrite ghash_blocks_nil, xorb_nil_l.
    replace (if enc then [] else []) with (@nil N) by (destruct enc; reflexivity).
    rewrite pad16_nil, xorb_zeros_r by (rewrite length_YA; lia). reflexivity.
  - intros Hn. contradiction.
Qed.

(* ------------------------------------------------------------------ PARTIAL_BLOCK *)

Lemma length_xorb_key t K : length t <= 16 -> length K = 16 -> length (xorb_list t K) = length t.
Proof. intros Ht HK. rewrite xorb_length, HK. lia. Qed.

Lemma length_side_open t K : length t <= 16 -> length K = 16 -> length (side t (xorb_list t K)) = length t.
Proof. intros Ht HK. unfold side. destruct enc; [apply length_xorb_key; assumption|reflexivity]. Qed.

Lemma partial_inv c X d c2 o1 rest :
  Inv c X -> gcm_partial_block H enc c d = (c2, o1, rest) ->
  exists d1, d = d1 ++ rest /\ Inv c2 (X ++ d1) /\ O (X ++ d1) = O X ++ o1 /\
             (rest <> [] -> pb_len c2 = 0) /\ in_length c2 = in_length c.
Proof.
  intros (Xc & t & q & HX & HXc & Ht & Ht16 & Hh & Hc & Hk & Hiv & Hal) Hpb.
  unfold gcm_partial_block in Hpb.
  destruct (pb_len c) as [|r'] eqn:Hr.
  - (* no open block *)
    injection Hpb as <- <- <-. exists []. rewrite !app_nil_r.
    repeat split; try reflexivity.
    + exists Xc, t, q. rewrite Hr. repeat split; assumption.
    + intros _. exact Hr.
  - assert (Htn : t <> []) by (intros Hn; rewrite Hn in Ht; discriminate).
    set (K := E (ctrs (S q))) in *.
    assert (HK : length K = 16) by (apply E_len, length_ctrs).
    rewrite (Hk Htn) in Hpb.
    set (k := Nat.min (length d) (16 - S r')) in *.
    set (d1 := firstn k d) in *.
    assert (Hd1 : length d1 = k) by (unfold d1; rewrite firstn_length; unfold k; lia).
    assert (Hk16 : length t + k <= 16) by (unfold k; lia).
    assert (Hsplit : d = d1 ++ skipn k d) by (unfold d1; symmetry; apply firstn_skipn).
    assert (HO : O (X ++ d1) = O X ++ xorb_list d1 (skipn (S r') K)).
    { rewrite HX, <- app_assoc, !(O_split Xc _ q HXc).
      rewrite gctr_E_short by (try (rewrite app_length; lia); intros Hn; apply app_eq_nil in Hn; tauto).
      rewrite gctr_E_short by (try lia; exact Htn).
      fold K. rewrite xorb_app_l by lia. rewrite Ht, app_assoc. reflexivity. }
    set (o := xorb_list d1 (skipn (S r') K)) in *.
    set (cb := if enc then o else d1) in *.
    set (ct := side t (xorb_list t K)).
    assert (Hct : length ct = S r') by (unfold ct; rewrite length_side_open by (lia || exact HK); exact Ht).
    assert (Hside : side (t ++ d1) (xorb_list (t ++ d1) K) = ct ++ cb).
    { rewrite xorb_app_l by lia. rewrite side_app, Ht. reflexivity. }
    assert (Hcb : length cb = k).
    { unfold cb, o. destruct enc; [|exact Hd1]. rewrite xorb_length, skipn_length, HK, Hd1. unfold k. lia. }
    assert (Hy : xorb_list (rev (aad_hash c)) (place (S r') cb) =
                 xorb_list (ghash_blocks H YA (side Xc (O Xc))) (pad16 (ct ++ cb))).
    { rewrite Hh. fold K. fold ct. rewrite xorb_assoc. f_equal. rewrite <- Hct. symmetry. apply pad16_app. lia. }
    Timeout 20 remember (16 <=? S r' + length d) as le eqn:Hle.
    Timeout 20 destruct le.
    Show.
    Timeout 20 injection Hpb as Hc2 Ho1 Hrest.
    Show.
