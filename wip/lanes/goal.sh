#!/bin/sh
# usage: goal.sh Proofs/File.v LINE [maxlines] : show the goal(s) just before LINE
f=/verif/coq/$1; n=$2
t=/tmp/G_$$
head -n $((n-1)) $f > $t.v; echo "Show. Abort." >> $t.v
(cd /verif/coq && coqc -q -Q . ISAL -w none $t.v 2>&1 | head -${3:-50}); rm -f $t.*
