#!/bin/sh
/verif/wip/lanes/body.sh "$1" | grep -n "unused_lanes\|num_lanes_inuse\|_lens\|cmp\|bt \|^\s*j[a-z]*\s\|call\|THRESHOLD\|0x[fF]\|shl\|shr\|^[a-z_0-9]*:\|%if\|%else\|%rep\|%assign\|min\|_data_ptr\|and " | grep -v "cmovne\|_job_in_lane\], 0$\|^[0-9]*:[a-z_]*_[0-9]*:\s*dq"
