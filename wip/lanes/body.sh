#!/bin/sh
# print the control-relevant body of a manager asm file
awk '
/^mk_global|^_[a-z0-9_]*:/ {on=1}
on {print}
' "$1" | grep -v "^\s*$" | grep -v "^\s*;*\s*$" | grep -v "movdqa *\[rsp\|movdqa *xmm[0-9]*, *\[rsp\|mov *\[rsp\|mov *r[a-z0-9]*, *\[rsp\|^%ifidn\|^%endif\|endbranch\|sub *rsp\|add *rsp\|movdqu *\[rsp\|movdqu *xmm[0-9]*, *\[rsp"
