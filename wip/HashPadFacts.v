(* hash_pad (the exact index arithmetic of the C) produces the Merkle–Damgård padding. *)
From Coq Require Import NArith List Arith Lia ZArith ZifyNat ZifyN.
From ISAL Require Import Base.Words Base.ListUtil Spec.MD Model.HashCtx
  Proofs.WordsFacts Proofs.ListFacts Proofs.ChunkFacts.
Import ListNotations.

Ltac Zify.zify_post_hook ::= Z.div_mod_to_equations.

Record algo_wf (A : algo) : Prop := {
  wf_shape : (a_bsize A = 64 /\ a_lenfld A = 8) \/ (a_bsize A = 128 /\ a_lenfld A = 16);
  wf_lenbytes : forall n, length (a_lenbytes A n) = a_lenfld A
}.

Lemma length_splice l off d : off + length d <= length l -> length (splice l off d) = length l.
Proof.
  intros H. unfold splice. rewrite !app_length, firstn_length, skipn_length. lia.
Qed.

Lemma land_low_mod x k : N.land x (2 ^ k - 1) = (x mod 2 ^ k)%N.
Proof. rewrite <- N.land_ones. f_equal. rewrite N.ones_equiv. symmetry. apply N.pred_sub. Qed.

Section Pad.
Variable A : algo.
Hypothesis WF : algo_wf A.

Lemma B_pos : B A > 0.
Proof. unfold B. destruct (wf_shape A WF) as [[-> _]|[-> _]]; lia. Qed.

Lemma length_md_pad n : length (md_pad A n) = 1 + padz A n + a_lenfld A.
Proof.
  unfold md_pad. rewrite !app_length, length_zeros, (wf_lenbytes A WF). reflexivity.
Qed.

(* the arithmetic core: the index the C code computes is the end of the padding *)
Lemma pad_arith (n b f : nat) :
  (b = 64 /\ f = 8) \/ (b = 128 /\ f = 16) ->
  (N.of_nat n < 2305843009213693952)%N ->
  let y := (N.of_nat n + N.of_nat f + 1)%N in
  let neg := ((18446744073709551616 - y mod 18446744073709551616) mod 18446744073709551616)%N in
  let pz := (b - (n + 1 + f) mod b) mod b in
  N.to_nat (N.of_nat n mod N.of_nat b) = n mod b /\
  N.to_nat (neg mod N.of_nat b) = pz /\
  (n mod b + 1 + pz + f) mod b = 0 /\
  n mod b + 1 + pz + f <= 2 * b /\ pz < b.
Proof.
  intros Hs Hn y neg pz. subst y neg pz.
  destruct Hs as [[-> ->]|[-> ->]].
  - change (N.of_nat 64) with 64%N. change (N.of_nat 8) with 8%N.
    rewrite (N.mod_small (N.of_nat n + 8 + 1)) by lia.
    rewrite (N.mod_small (18446744073709551616 - _)) by lia.
    repeat split; lia.
  - change (N.of_nat 128) with 128%N. change (N.of_nat 16) with 16%N.
    rewrite (N.mod_small (N.of_nat n + 16 + 1)) by lia.
    rewrite (N.mod_small (18446744073709551616 - _)) by lia.
    repeat split; lia.
Qed.

Lemma hash_pad_unfold pbuf n :
  (N.of_nat n < 2 ^ 61)%N ->
  let r := n mod B A in
  let pz := padz A n in
  hash_pad A pbuf (N.of_nat n) =
  (splice (upd r 128%N (splice pbuf r (zeros (B A)))) (r + 1 + pz) (a_lenbytes A (8 * N.of_nat n)),
   (r + 1 + pz + a_lenfld A) / B A) /\
  (r + 1 + pz + a_lenfld A) mod B A = 0 /\ r + 1 + pz + a_lenfld A <= 2 * B A /\ pz < B A /\ r < B A.
Proof.
  intros Hn r pz. subst r pz.
  change (2 ^ 61)%N with 2305843009213693952%N in Hn.
  pose proof (pad_arith n (a_bsize A) (a_lenfld A) (wf_shape A WF) Hn) as PA.
  cbv zeta in PA. destruct PA as (P1 & P2 & P3 & P4 & P5).
  assert (Hr : n mod B A < B A) by (apply Nat.mod_upper_bound; pose proof B_pos; lia).
  split; [|unfold padz, B in *; repeat split; assumption].
  unfold hash_pad. fold (B A).
  assert (Eland : forall x, N.land x (N.of_nat (B A) - 1) = (x mod N.of_nat (B A))%N).
  { intros x. unfold B. destruct (wf_shape A WF) as [[-> _]|[-> _]].
    - change (N.of_nat 64 - 1)%N with (2 ^ 6 - 1)%N. rewrite land_low_mod. reflexivity.
    - change (N.of_nat 128 - 1)%N with (2 ^ 7 - 1)%N. rewrite land_low_mod. reflexivity. }
  rewrite (N.land_comm (N.of_nat (B A) - 1)), !Eland.
  unfold w64. rewrite !wrap_mod. change (2 ^ 64)%N with 18446744073709551616%N.
  unfold B in *. rewrite P1.
  assert (Esh : (N.shiftl (N.of_nat n) 3 mod 18446744073709551616 = 8 * N.of_nat n)%N).
  { rewrite N.shiftl_mul_pow2. change (2 ^ 3)%N with 8%N. rewrite N.mod_small by lia. lia. }
  rewrite Esh.
  set (neg := ((18446744073709551616 - (N.of_nat n + N.of_nat (a_lenfld A) + 1) mod 18446744073709551616)
               mod 18446744073709551616)%N) in *.
  assert (E2 : N.to_nat (N.of_nat n mod N.of_nat (a_bsize A) + neg mod N.of_nat (a_bsize A) + 1 +
                         N.of_nat (a_lenfld A)) = n mod a_bsize A + 1 + padz A n + a_lenfld A).
  { unfold padz. lia. }
  f_equal.
  - f_equal. rewrite E2. lia.
  - rewrite <- E2. pose proof B_pos as Bp. unfold B in Bp.
    rewrite N2Nat.inj_div. rewrite Nat2N.id. reflexivity.
Qed.

Lemma hash_pad_spec pbuf n :
  length pbuf = 2 * B A -> (N.of_nat n < 2 ^ 61)%N ->
  let '(buf, nblk) := hash_pad A pbuf (N.of_nat n) in
  length buf = 2 * B A /\
  firstn (nblk * B A) buf = firstn (n mod B A) pbuf ++ md_pad A n.
Proof.
  intros Hl Hn.
  destruct (hash_pad_unfold pbuf n Hn) as (E & M0 & Le & Pz & Hr). cbv zeta in *.
  rewrite E. clear E.
  set (r := n mod B A) in *. set (pz := padz A n) in *.
  pose proof B_pos as Bp.
  assert (Hlb : length (a_lenbytes A (8 * N.of_nat n)) = a_lenfld A) by apply (wf_lenbytes A WF).
  assert (L1 : length (splice pbuf r (zeros (B A))) = 2 * B A).
  { rewrite length_splice; rewrite ?length_zeros; lia. }
  assert (L2 : length (upd r 128%N (splice pbuf r (zeros (B A)))) = 2 * B A).
  { rewrite length_upd. exact L1. }
  split.
  - rewrite length_splice; rewrite ?Hlb; lia.
  - assert (Ediv : (r + 1 + pz + a_lenfld A) / B A * B A = r + 1 + pz + a_lenfld A).
    { pose proof (Nat.div_mod (r + 1 + pz + a_lenfld A) (B A) ltac:(lia)) as D. rewrite M0 in D. lia. }
    rewrite Ediv.
    (* shape of the buffer after memclr and the 0x80 store *)
    assert (S2 : upd r 128%N (splice pbuf r (zeros (B A))) =
                 firstn r pbuf ++ [128%N] ++ zeros (B A - 1) ++ skipn (r + B A) pbuf).
    { unfold splice. rewrite length_zeros.
      replace (B A) with (1 + (B A - 1)) at 1 by lia. rewrite zeros_app. cbn [zeros repeat app].
      assert (Lr : length (firstn r pbuf) = r) by (rewrite firstn_length; lia).
      rewrite <- Lr at 1. rewrite upd_app_r. reflexivity. }
    rewrite S2. unfold splice. rewrite Hlb.
    assert (Lr : length (firstn r pbuf) = r) by (rewrite firstn_length; lia).
    (* firstn (r+1+pz) of that shape *)
    assert (F1 : firstn (r + 1 + pz) (firstn r pbuf ++ [128%N] ++ zeros (B A - 1) ++ skipn (r + B A) pbuf)
                 = firstn r pbuf ++ [128%N] ++ zeros pz).
    { rewrite firstn_app, Lr. rewrite firstn_all2 by lia. f_equal.
      replace (r + 1 + pz - r) with (S pz) by lia. cbn [app firstn]. f_equal.
      rewrite firstn_app_l by (rewrite length_zeros; lia). apply firstn_zeros. lia. }
    rewrite F1. unfold md_pad. fold pz.
    rewrite <- !app_assoc. cbn [app].
    rewrite firstn_app, Lr. rewrite firstn_all2 by lia. f_equal.
    replace (r + 1 + pz + a_lenfld A - r) with (S (pz + a_lenfld A)) by lia.
    cbn [firstn]. f_equal.
    rewrite firstn_app, length_zeros. rewrite firstn_all2 by (rewrite length_zeros; lia). f_equal.
    replace (pz + a_lenfld A - pz) with (a_lenfld A) by lia.
    rewrite firstn_app_l by lia. apply firstn_all2. lia.
Qed.

End Pad.
