From Coq Require Import NArith List Bool.
From ISAL Require Import Model.MiniC Model.MiniCCheck Gen.WrappersGen Gen.WrappersFipsGen Spec.WrapperSpec.
Import ListNotations.
Local Open Scope N_scope.
Definition e1 := gcm_full id_isal_aes_gcm_enc_128 id__aes_gcm_enc_128 [id_aes_gcm_enc_128].
Time Eval vm_compute in (check16 WrappersGen.table e1).
Time Eval vm_compute in (check13 id__aes_self_tests id__sha_self_tests WrappersFipsGen.table e1).
Time Eval vm_compute in (map (fun e => (e_id e, cex16 WrappersGen.table e)) (filter (fun e => negb (is_neutral e) && negb (check16 WrappersGen.table e)) specs)).
Time Eval vm_compute in (map (fun e => (e_id e)) (filter (fun e => negb (check_legacy WrappersGen.table e)) specs)).
Time Eval vm_compute in (map (fun e => (e_id e, cex13 id__aes_self_tests id__sha_self_tests WrappersFipsGen.table e)) (filter (fun e => negb (check13 id__aes_self_tests id__sha_self_tests WrappersFipsGen.table e)) specs)).
