From Coq Require Import NArith List Bool.
From ISAL Require Import Model.MiniC Model.MiniCCheck Gen.WrappersGen Gen.WrappersFipsGen Spec.WrapperSpec.
Import ListNotations.
Local Open Scope N_scope.
Definition e1 := gcm_full id_isal_aes_gcm_enc_128 id__aes_gcm_enc_128 [id_aes_gcm_enc_128].
Definition t1 := entry_tree WrappersGen.table WrappersGen.fn_isal_aes_gcm_enc_128.
Time Eval vm_compute in (length (tree_atoms t1)).
Time Eval vm_compute in (atoms_info (atomsQ t1 (forms16 e1))).
Time Eval vm_compute in (match atoms_info (atomsQ t1 (forms16 e1)) with Some inf => map (fun k => (k, cands inf k)) (keys_of_info inf) | None => [] end).
