From Coq Require Import NArith List Bool.
From ISAL Require Import Model.MiniC Model.MiniCCheck Model.MiniCInst Gen.WrappersGen Spec.WrapperSpec.
Import ListNotations.
Local Open Scope N_scope.
Eval vm_compute in (unsupported16 id_isal_sm3_ctx_mgr_submit).
Eval vm_compute in (unsupported16 id_isal_sha1_ctx_mgr_submit).
