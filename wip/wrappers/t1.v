From Coq Require Import NArith List Bool.
From ISAL Require Import Model.MiniC Model.MiniCCheck Gen.WrappersGen Gen.WrappersFipsGen Spec.WrapperSpec.
Import ListNotations.
Local Open Scope N_scope.
Eval vm_compute in (covers specs entries).
Eval vm_compute in (entry_tree WrappersGen.table WrappersGen.fn_isal_aes_xts_enc_128).
Eval vm_compute in (entry_tree WrappersFipsGen.table WrappersFipsGen.fn_isal_aes_xts_enc_128).
Eval vm_compute in (entry_tree WrappersGen.table WrappersGen.fn_isal_rolling_hash2_init).
Eval vm_compute in (entry_tree WrappersGen.table WrappersGen.fn_isal_sha1_ctx_mgr_submit).
Time Eval vm_compute in (map (fun e => (e_id e, check16 WrappersGen.table e)) (filter (fun e => negb (is_neutral e) && negb (check16 WrappersGen.table e)) specs)).
Time Eval vm_compute in (map (fun e => (e_id e, check_legacy WrappersGen.table e)) (filter (fun e => negb (check_legacy WrappersGen.table e)) specs)).
Time Eval vm_compute in (map (fun e => (e_id e)) (filter (fun e => negb (check13 id__aes_self_tests id__sha_self_tests WrappersFipsGen.table e)) specs)).
