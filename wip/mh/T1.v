From Coq Require Import NArith ZArith List Arith Lia ZifyBool ZifyNat ZifyN.
From ISAL Require Import Base.Words Base.ListUtil Spec.MD Spec.SHA1 Spec.SHA256 Spec.MH Model.MhCtx
  Proofs.WordsFacts Proofs.ListFacts Proofs.ChunkFacts.
Import ListNotations.

Lemma deal_words_abs (g : list N -> N) (f : nat -> N) :
  let blk := map f (seq 0 1024) in
  map (fun s => map g (chunks 4 (nth s (mh_segments blk) []))) (seq 0 16)
  = map (fun s => map (fun i => nth (i * 16 + s) (map g (chunks 4 blk)) 0%N) (seq 0 16)) (seq 0 16).
Proof. intros blk. Time vm_compute. reflexivity. Time Qed.

Lemma flat5_abs (g : nat -> nat -> N) :
  let R := map (fun s => map (g s) (seq 0 5)) (seq 0 16) in
  concat (mh_transpose 5 R) = flat_map (fun k => map (fun l => nth k l 0%N) R) (seq 0 5).
Proof. intros R. vm_compute. reflexivity. Qed.

Lemma lane5_abs (g : nat -> nat -> N) :
  let R := map (fun s => map (g s) (seq 0 5)) (seq 0 16) in
  map (mh_lane 5 (concat (mh_transpose 5 R))) (seq 0 16) = R.
Proof. intros R. vm_compute. reflexivity. Qed.
