#!/bin/bash
# usage: run_mutations.sh <name-prefix>:<check-id> ...   e.g. b1:C05 b2:C10
# applies wip/mh/mutations/<name>*.diff to a scratch worktree of /repo HEAD and runs the check
cd /verif
for spec in "$@"; do
  pre=${spec%%:*}; pid=${spec##*:}
  f=$(ls wip/mh/mutations/${pre}_*.diff | head -1)
  wt=/tmp/wt-mh-$pre
  git -C /repo worktree remove --force $wt >/dev/null 2>&1
  git -C /repo worktree add --detach $wt HEAD >/dev/null 2>&1 || { echo "worktree failed"; continue; }
  (cd $wt && patch -p1 -s < /verif/$f) || { echo "patch failed $f"; continue; }
  t0=$(date +%s)
  out=$(VERIF_REPO=$wt timeout 1500 ./check $pid 2>&1 | grep -v "^WARNING conda" | grep "^OK\|^VIOLATION\|^KNOWN\|detail:" | head -4)
  t1=$(date +%s)
  echo "== $(basename $f) [$pid] $((t1-t0))s"
  echo "$out"
  # keep the first replay of the run for the docs
  git -C /repo worktree remove --force $wt >/dev/null 2>&1
done
