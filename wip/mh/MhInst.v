(* The multi-hash instances: the interleaved block function of Model/MhCtx.v (index arithmetic
   on the flat uint32_t [word][segment] array and on the 256 words of a block) is Spec/MH.v's
   16 independent compression chains on the dealt words; hence mh1_run / mh256_run equal
   mh_sha1 / mh_sha256 for every partition of the stream. *)
From Coq Require Import NArith ZArith List Arith Lia ZifyBool ZifyNat ZifyN.
From ISAL Require Import Base.Words Base.ListUtil Spec.MD Spec.SHA1 Spec.SHA256 Spec.MH Model.MhCtx
  Proofs.WordsFacts Proofs.ListFacts Proofs.ChunkFacts Proofs.MhFacts.
Import ListNotations.

(* ---- small list facts ---- *)
Lemma mh_list_eta {X} (d : X) n (l : list X) : length l = n ->
  l = map (fun i => nth i l d) (seq 0 n).
Proof.
  intros H. apply (nth_ext _ _ d d).
  - rewrite map_length, seq_length. exact H.
  - intros i Hi. symmetry.
    rewrite (nth_indep (map (fun i => nth i l d) (seq 0 n)) d (nth 0 l d)) by (rewrite map_length, seq_length; lia).
    rewrite (map_nth (fun i => nth i l d) (seq 0 n) 0 i). rewrite seq_nth by lia. reflexivity.
Qed.

Lemma mh_combine_map {X Y Z} (f : X -> Y) (g : X -> Z) l :
  combine (map f l) (map g l) = map (fun x => (f x, g x)) l.
Proof. induction l as [|a l IH]; cbn [map combine]; [reflexivity|]. rewrite IH. reflexivity. Qed.

Lemma mh_map_eq_in {X Y} (f g : X -> Y) l x : map f l = map g l -> In x l -> f x = g x.
Proof.
  induction l as [|a l IH]; intros E Hin; [contradiction|].
  cbn [map] in E. injection E as E1 E2. destruct Hin as [->|Hin]; [exact E1|exact (IH E2 Hin)].
Qed.

Lemma mh_nth_map_seq {Y} (f : nat -> Y) n s d : s < n -> nth s (map f (seq 0 n)) d = f s.
Proof.
  intros H. rewrite (nth_indep (map f (seq 0 n)) d (f 0)) by (rewrite map_length, seq_length; lia).
  rewrite (map_nth f (seq 0 n) 0 s). rewrite seq_nth by lia. reflexivity.
Qed.

Lemma mh_chunks_lengths {X} n : n > 0 -> forall k (l : list X), length l = k * n ->
  Forall (fun b => length b = n) (chunks n l) /\ length (chunks n l) = k.
Proof.
  intros Hn. induction k as [|k IH]; intros l Hl.
  - destruct l; [split; [constructor|reflexivity]|cbn [length] in Hl; lia].
  - assert (l <> []) by (intros ->; cbn [length] in Hl; lia).
    rewrite chunks_cons by assumption.
    destruct (IH (skipn n l)) as [F L]; [rewrite skipn_length; lia|].
    split; [constructor; [rewrite firstn_length; lia|exact F]|cbn [length]; rewrite L; reflexivity].
Qed.

(* ---- layout facts, by evaluation on a generic block / a generic interim matrix ---- *)

(* word (16 i + s) of the block is word i of segment s: the round-robin dealing *)
Lemma mh_deal_words_abs (g : list N -> N) (f : nat -> N) :
  let blk := map f (seq 0 1024) in
  map (fun s => map g (chunks 4 (nth s (mh_segments blk) []))) (seq 0 16)
  = map (fun s => map (fun i => nth (i * 16 + s) (map g (chunks 4 blk)) 0%N) (seq 0 16)) (seq 0 16).
Proof. intros blk. vm_compute. reflexivity. Qed.

(* segment s of a block is the concatenation of the 4-byte words s, 16 + s, 32 + s, ... *)
Lemma mh_segments_abs (f : nat -> N) :
  let blk := map f (seq 0 1024) in
  mh_segments blk
  = map (fun s => flat_map (fun i => firstn 4 (skipn (4 * (16 * i + s)) blk)) (seq 0 16)) (seq 0 16).
Proof. intros blk. vm_compute. reflexivity. Qed.

Lemma mh_deal_words blk s : length blk = 1024 -> s < 16 ->
  be_words32 (nth s (mh_segments blk) []) = mh_lane_words (be_words32 blk) s.
Proof.
  intros Hl Hs. set (f := fun i => nth i blk 0%N).
  assert (E : blk = map f (seq 0 1024)) by (apply mh_list_eta; exact Hl).
  rewrite E.
  apply (mh_map_eq_in _ _ (seq 0 16) s (mh_deal_words_abs be32 f)).
  apply in_seq. lia.
Qed.

Lemma mh_segments_dealt blk : length blk = 1024 ->
  mh_segments blk
  = map (fun s => flat_map (fun i => firstn 4 (skipn (4 * (16 * i + s)) blk)) (seq 0 16)) (seq 0 16).
Proof.
  intros Hl. set (f := fun i => nth i blk 0%N).
  assert (E : blk = map f (seq 0 1024)) by (apply mh_list_eta; exact Hl).
  rewrite E. exact (mh_segments_abs f).
Qed.

Lemma mh_segments_length blk : length blk = 1024 -> length (mh_segments blk) = 16.
Proof. intros Hl. rewrite mh_segments_dealt by exact Hl. reflexivity. Qed.

Definition mh_wf (nw : nat) (I : list (list N)) : Prop :=
  length I = 16 /\ Forall (fun h => length h = nw) I.

Lemma mh_wf_eta nw I : mh_wf nw I ->
  I = map (fun s => map (fun k => nth k (nth s I []) 0%N) (seq 0 nw)) (seq 0 16).
Proof.
  intros [L F]. etransitivity; [exact (mh_list_eta [] 16 I L)|].
  apply map_ext_in. intros s Hs. apply mh_list_eta.
  rewrite Forall_forall in F. apply F. apply nth_In. apply in_seq in Hs. lia.
Qed.

Lemma mh_blocks_lengths msg : Forall (fun b => length b = 1024) (mh_blocks msg).
Proof.
  unfold mh_blocks. change mh_bsize with 1024.
  set (n := length msg).
  assert (Hex : exists k, length (msg ++ mh_pad n) = k * 1024).
  { unfold mh_pad, mh_padz. change mh_bsize with 1024.
    rewrite !app_length, length_zeros. unfold N_to_be. rewrite rev_length.
    cbn [length N_to_le]. fold n.
    exists ((n + 1 + (1024 - (n + 9) mod 1024) mod 1024 + 8) / 1024). lia. }
  destruct Hex as [k Hk]. exact (proj1 (mh_chunks_lengths 1024 ltac:(lia) k _ Hk)).
Qed.

Section Inst.
Variable A : algo.
Variable nw : nat.
Variable cw : list N -> list N -> list N.
Hypothesis Hiv : length (a_iv A) = nw.
Hypothesis Hcw : forall h blk, a_compress A h blk = cw h (be_words32 blk).
Hypothesis Hcwlen : forall h m, length (cw h m) = length h.
(* the two layout facts about the flat [word][segment] array, discharged per instance by evaluation *)
Hypothesis Hflat_abs : forall g : nat -> nat -> N,
  let R := map (fun s => map (g s) (seq 0 nw)) (seq 0 16) in
  concat (mh_transpose nw R) = flat_map (fun k => map (fun l => nth k l 0%N) R) (seq 0 nw).
Hypothesis Hlane_abs : forall g : nat -> nat -> N,
  let R := map (fun s => map (g s) (seq 0 nw)) (seq 0 16) in
  map (mh_lane nw (concat (mh_transpose nw R))) (seq 0 16) = R.

Definition mh_flat (I : list (list N)) : list N := mh_interim_words A I.

Lemma mh_flat_il I : mh_wf nw I ->
  mh_flat I = flat_map (fun k => map (fun l => nth k l 0%N) I) (seq 0 nw).
Proof.
  intros W. unfold mh_flat, mh_interim_words. rewrite Hiv.
  rewrite (mh_wf_eta nw I W). exact (Hflat_abs (fun s k => nth k (nth s I []) 0%N)).
Qed.

Lemma mh_lane_flat I s : mh_wf nw I -> s < 16 -> mh_lane nw (mh_flat I) s = nth s I [].
Proof.
  intros W Hs. unfold mh_flat, mh_interim_words. rewrite Hiv.
  pose proof (Hlane_abs (fun s k => nth k (nth s I []) 0%N)) as E. cbv beta zeta in E.
  rewrite <- (mh_wf_eta nw I W) in E.
  rewrite (mh_list_eta [] 16 I (proj1 W)) in E at 2.
  apply (mh_map_eq_in _ _ (seq 0 16) s E). apply in_seq. lia.
Qed.

(* Spec/MH.v's block update, lane by lane *)
Lemma mh_block_update_lanes I blk : mh_wf nw I -> length blk = 1024 ->
  mh_block_update A I blk
  = map (fun s => a_compress A (nth s I []) (nth s (mh_segments blk) [])) (seq 0 16).
Proof.
  intros [L F] Hl. unfold mh_block_update.
  rewrite (mh_list_eta [] 16 I L) at 1.
  rewrite (mh_list_eta [] 16 (mh_segments blk) (mh_segments_length blk Hl)) at 1.
  rewrite mh_combine_map, map_map. reflexivity.
Qed.

Lemma mh_block_update_wf I blk : mh_wf nw I -> length blk = 1024 ->
  mh_wf nw (mh_block_update A I blk).
Proof.
  intros W Hl. rewrite mh_block_update_lanes by assumption. split.
  - rewrite map_length, seq_length. reflexivity.
  - apply Forall_forall. intros h Hin. apply in_map_iff in Hin. destruct Hin as (s & <- & Hs).
    rewrite Hcw, Hcwlen. destruct W as [L F]. rewrite Forall_forall in F. apply F.
    apply nth_In. apply in_seq in Hs. lia.
Qed.

(* C05_block_is_16_segments: the interleaved block function on the flat array is the 16
   independent compressions of Spec/MH.v *)
Lemma mh_block_il_correct I blk : mh_wf nw I -> length blk = 1024 ->
  mh_block_il nw cw (mh_flat I) blk = mh_flat (mh_block_update A I blk).
Proof.
  intros W Hl. rewrite (mh_flat_il _ (mh_block_update_wf I blk W Hl)).
  rewrite mh_block_update_lanes by assumption.
  unfold mh_block_il. cbv zeta.
  assert (E : map (fun s => cw (mh_lane nw (mh_flat I) s) (mh_lane_words (be_words32 blk) s)) (seq 0 16)
            = map (fun s => a_compress A (nth s I []) (nth s (mh_segments blk) [])) (seq 0 16)).
  { apply map_ext_in. intros s Hs. apply in_seq in Hs.
    rewrite Hcw, mh_lane_flat by (try assumption; lia). rewrite mh_deal_words by (try assumption; lia).
    reflexivity. }
  rewrite E. reflexivity.
Qed.

Lemma mh_init_wf : mh_wf nw (mh_init A).
Proof.
  unfold mh_init, mh_nsegs. split; [apply repeat_length|].
  apply Forall_forall. intros h Hin. apply repeat_spec in Hin. subst h. exact Hiv.
Qed.

Lemma mh_fold_sim blocks : Forall (fun b => length b = 1024) blocks -> forall I, mh_wf nw I ->
  fold_left (mh_block_il nw cw) blocks (mh_flat I) = mh_flat (fold_left (mh_block_update A) blocks I)
  /\ mh_wf nw (fold_left (mh_block_update A) blocks I).
Proof.
  induction 1 as [|b blocks Hb Hbs IH]; intros I W; cbn [fold_left]; [split; [reflexivity|exact W]|].
  rewrite mh_block_il_correct by assumption. apply IH. apply mh_block_update_wf; assumption.
Qed.

Hypothesis Hflat_iv : mh_flat (mh_init A) = mh_flat_iv (a_iv A).

(* tail + final hash from any context that satisfies the streaming invariant *)
Lemma mh_tail_final_correct c stream :
  mh_inv (list N) (mh_block_il nw cw) (mh_flat_iv (a_iv A)) c stream ->
  (N.of_nat (length stream) < 2 ^ 32)%N ->
  mh_final A (mhc_tail (list N) (mh_block_il nw cw) (mc_partial c) (w32 (mc_total c)) (mc_state c))
  = mh_hash A stream.
Proof.
  intros Hi Hlt. rewrite (mh_tail_correct _ _ _ c stream Hi Hlt).
  rewrite <- Hflat_iv.
  rewrite (proj1 (mh_fold_sim _ (mh_blocks_lengths stream) _ mh_init_wf)).
  reflexivity.
Qed.

(* C05_mh_update_segmentation, generic in the underlying hash *)
Theorem mh_run_correct (segs : list (list N)) :
  (N.of_nat (length (concat segs)) < 2 ^ 32)%N ->
  mhc_finalize (list N) (mh_block_il nw cw) (list N) (mh_final A)
    (fold_left (mhc_update (list N) (mh_block_il nw cw)) segs (mhc_init (list N) (mh_flat_iv (a_iv A))))
  = mh_hash A (concat segs).
Proof.
  intros Hlt. unfold mhc_finalize. apply mh_tail_final_correct; [|exact Hlt].
  change (concat segs) with ([] ++ concat segs).
  apply mh_inv_updates; [apply mh_inv_init|exact Hlt].
Qed.

(* the 16 segments are independent chains of the plain compression function *)
Definition mh_seg_chain (s : nat) (blocks : list (list N)) (h : list N) : list N :=
  fold_left (a_compress A) (map (fun b => nth s (mh_segments b) []) blocks) h.

Lemma mh_chain_independent blocks : Forall (fun b => length b = 1024) blocks -> forall I, mh_wf nw I ->
  fold_left (mh_block_update A) blocks I
  = map (fun s => mh_seg_chain s blocks (nth s I [])) (seq 0 16).
Proof.
  induction 1 as [|b blocks Hb Hbs IH]; intros I W.
  - cbn [fold_left]. unfold mh_seg_chain. cbn [map fold_left]. apply (mh_list_eta [] 16 I (proj1 W)).
  - cbn [fold_left]. rewrite IH by (apply mh_block_update_wf; assumption).
    apply map_ext_in. intros s Hs. apply in_seq in Hs.
    unfold mh_seg_chain. cbn [map fold_left]. f_equal.
    rewrite mh_block_update_lanes by assumption.
    rewrite (mh_nth_map_seq (fun s => a_compress A (nth s I []) (nth s (mh_segments b) [])) 16 s []) by lia.
    reflexivity.
Qed.

End Inst.

(* ---- SHA-1 and SHA-256 ---- *)

Lemma sha1_cw_length h m : length (sha1_compress_words h m) = length h.
Proof.
  destruct h as [|h0 [|h1 [|h2 [|h3 [|h4 [|h5 t]]]]]]; try reflexivity.
  unfold sha1_compress_words.
  destruct (fold_left sha1_round (combine (sha1_W m) sha1_q) (h0, h1, h2, h3, h4)) as [[[[a b] c] d] e].
  reflexivity.
Qed.

Lemma sha256_cw_length h m : length (sha256_compress_words h m) = length h.
Proof.
  destruct h as [|h0 [|h1 [|h2 [|h3 [|h4 [|h5 [|h6 [|h7 [|h8 t]]]]]]]]]; try reflexivity.
  unfold sha256_compress_words.
  destruct (fold_left sha256_round (combine (sha256_W m) sha256_K) (h0, h1, h2, h3, h4, h5, h6, h7))
    as [[[[[[[a b] c] d] e] f] g] hh].
  reflexivity.
Qed.

Lemma mh_flat5_abs (g : nat -> nat -> N) :
  let R := map (fun s => map (g s) (seq 0 5)) (seq 0 16) in
  concat (mh_transpose 5 R) = flat_map (fun k => map (fun l => nth k l 0%N) R) (seq 0 5).
Proof. intros R. vm_compute. reflexivity. Qed.
Lemma mh_lane5_abs (g : nat -> nat -> N) :
  let R := map (fun s => map (g s) (seq 0 5)) (seq 0 16) in
  map (mh_lane 5 (concat (mh_transpose 5 R))) (seq 0 16) = R.
Proof. intros R. vm_compute. reflexivity. Qed.
Lemma mh_flat8_abs (g : nat -> nat -> N) :
  let R := map (fun s => map (g s) (seq 0 8)) (seq 0 16) in
  concat (mh_transpose 8 R) = flat_map (fun k => map (fun l => nth k l 0%N) R) (seq 0 8).
Proof. intros R. vm_compute. reflexivity. Qed.
Lemma mh_lane8_abs (g : nat -> nat -> N) :
  let R := map (fun s => map (g s) (seq 0 8)) (seq 0 16) in
  map (mh_lane 8 (concat (mh_transpose 8 R))) (seq 0 16) = R.
Proof. intros R. vm_compute. reflexivity. Qed.

Lemma mh_flat_iv_sha1 : mh_flat sha1_algo (mh_init sha1_algo) = mh_flat_iv (a_iv sha1_algo).
Proof. vm_compute. reflexivity. Qed.
Lemma mh_flat_iv_sha256 : mh_flat sha256_algo (mh_init sha256_algo) = mh_flat_iv (a_iv sha256_algo).
Proof. vm_compute. reflexivity. Qed.

Theorem mh1_run_correct (segs : list (list N)) :
  (N.of_nat (length (concat segs)) < 2 ^ 32)%N -> mh1_run segs = mh_sha1 (concat segs).
Proof.
  exact (mh_run_correct sha1_algo 5 sha1_compress_words eq_refl (fun _ _ => eq_refl) sha1_cw_length
           mh_flat5_abs mh_lane5_abs mh_flat_iv_sha1 segs).
Qed.

Lemma mh1_tail_final_correct c stream :
  mh_inv (list N) mh_sha1_block (mh_flat_iv sha1_iv) c stream ->
  (N.of_nat (length stream) < 2 ^ 32)%N ->
  mh_final sha1_algo (mhc_tail (list N) mh_sha1_block (mc_partial c) (w32 (mc_total c)) (mc_state c))
  = mh_sha1 stream.
Proof.
  exact (mh_tail_final_correct sha1_algo 5 sha1_compress_words eq_refl (fun _ _ => eq_refl) sha1_cw_length
           mh_flat5_abs mh_lane5_abs mh_flat_iv_sha1 c stream).
Qed.

Theorem mh256_run_correct (segs : list (list N)) :
  (N.of_nat (length (concat segs)) < 2 ^ 32)%N -> mh256_run segs = mh_sha256 (concat segs).
Proof.
  exact (mh_run_correct sha256_algo 8 sha256_compress_words eq_refl (fun _ _ => eq_refl) sha256_cw_length
           mh_flat8_abs mh_lane8_abs mh_flat_iv_sha256 segs).
Qed.

Theorem mh_run_split_independent (segsA segsB : list (list N)) :
  concat segsA = concat segsB -> (N.of_nat (length (concat segsA)) < 2 ^ 32)%N ->
  mh1_run segsA = mh1_run segsB /\ mh256_run segsA = mh256_run segsB.
Proof.
  intros E H. rewrite !mh1_run_correct, !mh256_run_correct by (rewrite <- ?E; exact H).
  rewrite E. split; reflexivity.
Qed.

Theorem mh_sha1_block_is_16_segments I blk : mh_wf 5 I -> length blk = 1024 ->
  mh_sha1_block (mh_interim_words sha1_algo I) blk = mh_interim_words sha1_algo (mh_block_update sha1_algo I blk).
Proof.
  exact (mh_block_il_correct sha1_algo 5 sha1_compress_words eq_refl (fun _ _ => eq_refl) sha1_cw_length
           mh_flat5_abs mh_lane5_abs I blk).
Qed.

Theorem mh_sha256_block_is_16_segments I blk : mh_wf 8 I -> length blk = 1024 ->
  mh_sha256_block (mh_interim_words sha256_algo I) blk = mh_interim_words sha256_algo (mh_block_update sha256_algo I blk).
Proof.
  exact (mh_block_il_correct sha256_algo 8 sha256_compress_words eq_refl (fun _ _ => eq_refl) sha256_cw_length
           mh_flat8_abs mh_lane8_abs I blk).
Qed.

(* the whole multi-hash chain is 16 independent plain compression chains, segment s over the
   words s, 16 + s, 32 + s, ... of every 1024-byte block of the padded stream *)
Lemma mh_chain_16_generic (A : algo) nw cw :
  length (a_iv A) = nw -> (forall h blk, a_compress A h blk = cw h (be_words32 blk)) ->
  (forall h m, length (cw h m) = length h) -> forall msg,
  mh_chain A msg
  = map (fun s => fold_left (a_compress A) (map (fun b => nth s (mh_segments b) []) (mh_blocks msg)) (a_iv A))
        (seq 0 16).
Proof.
  intros Hiv Hcw Hcwlen msg. unfold mh_chain.
  rewrite (mh_chain_independent A nw cw Hiv Hcw Hcwlen _ (mh_blocks_lengths msg) _ (mh_init_wf A nw Hiv)).
  apply map_ext_in. intros s Hs. apply in_seq in Hs. unfold mh_seg_chain. f_equal.
  unfold mh_init, mh_nsegs.
  rewrite (nth_indep _ [] (a_iv A)) by (rewrite repeat_length; lia). apply nth_repeat.
Qed.

Theorem mh_chain_16 msg :
  (mh_chain sha1_algo msg
   = map (fun s => fold_left sha1_compress (map (fun b => nth s (mh_segments b) []) (mh_blocks msg)) sha1_iv) (seq 0 16))
  /\
  (mh_chain sha256_algo msg
   = map (fun s => fold_left sha256_compress (map (fun b => nth s (mh_segments b) []) (mh_blocks msg)) sha256_iv) (seq 0 16)).
Proof.
  split.
  - exact (mh_chain_16_generic sha1_algo 5 sha1_compress_words eq_refl (fun _ _ => eq_refl) sha1_cw_length msg).
  - exact (mh_chain_16_generic sha256_algo 8 sha256_compress_words eq_refl (fun _ _ => eq_refl) sha256_cw_length msg).
Qed.
