#!/bin/sh
# usage: sg.sh file.v LINE [lines]  -- show the goal at LINE (replaces that line by Show. Abort All.)
f=$1; n=$2
head -$((n-1)) $f > /tmp/SG_$$.v; echo "Show. " >> /tmp/SG_$$.v
coqc -Q /verif/coq ISAL -Q /verif/wip/hash-base "" /tmp/SG_$$.v 2>&1 | grep -v "^WARNING conda" | head -${3:-60}; rm -f /tmp/SG_$$.* /tmp/.SG_$$.aux
