(* Algebra of the GHASH field product used by every GCM family: the product of
   Spec/GF128.v is additive (xor-linear) in each argument, for ALL N arguments.
   This is what makes deferred / aggregated reduction in the PCLMULQDQ code a
   re-association of the same sum. *)
From Coq Require Import NArith List Bool Arith Lia.
From ISAL Require Import Base.Words Base.ListUtil Spec.GF128.
Import ListNotations.
Local Open Scope N_scope.

Lemma lxor_swap_mid a b c d : N.lxor (N.lxor a b) (N.lxor c d) = N.lxor (N.lxor a c) (N.lxor b d).
Proof.
  rewrite !N.lxor_assoc. f_equal. rewrite <- !N.lxor_assoc. f_equal. apply N.lxor_comm.
Qed.

Lemma gf128_mul_f_add_l n : forall x y z1 z2 v,
  gf128_mul_f n (N.lxor x y) (N.lxor z1 z2) v =
  N.lxor (gf128_mul_f n x z1 v) (gf128_mul_f n y z2 v).
Proof.
  induction n as [|n IH]; intros x y z1 z2 v; [reflexivity|].
  cbn [gf128_mul_f]. rewrite N.lxor_spec.
  destruct (N.testbit x (N.of_nat n)) eqn:Hx; destruct (N.testbit y (N.of_nat n)) eqn:Hy;
    cbn [xorb]; rewrite <- IH; f_equal.
  - rewrite lxor_swap_mid, N.lxor_nilpotent, N.lxor_0_r. reflexivity.
  - rewrite !N.lxor_assoc. f_equal. apply N.lxor_comm.
  - rewrite !N.lxor_assoc. reflexivity.
Qed.

Lemma gf128_mul_add_l x y h :
  gf128_mul (N.lxor x y) h = N.lxor (gf128_mul x h) (gf128_mul y h).
Proof.
  unfold gf128_mul. rewrite <- gf128_mul_f_add_l, N.lxor_0_r. reflexivity.
Qed.

(* one step of V is additive *)
Definition gf128_vstep (v : N) : N :=
  if N.odd v then N.lxor (N.shiftr v 1) gf128_R else N.shiftr v 1.

Lemma odd_lxor a b : N.odd (N.lxor a b) = xorb (N.odd a) (N.odd b).
Proof. rewrite <- !N.bit0_odd. apply N.lxor_spec. Qed.

Lemma gf128_vstep_add a b : gf128_vstep (N.lxor a b) = N.lxor (gf128_vstep a) (gf128_vstep b).
Proof.
  unfold gf128_vstep. rewrite odd_lxor, N.shiftr_lxor.
  destruct (N.odd a), (N.odd b); cbn [xorb].
  - rewrite lxor_swap_mid, N.lxor_nilpotent, N.lxor_0_r. reflexivity.
  - rewrite !N.lxor_assoc. f_equal. apply N.lxor_comm.
  - rewrite !N.lxor_assoc. reflexivity.
  - reflexivity.
Qed.

Lemma gf128_mul_f_add_r n : forall x z1 z2 v1 v2,
  gf128_mul_f n x (N.lxor z1 z2) (N.lxor v1 v2) =
  N.lxor (gf128_mul_f n x z1 v1) (gf128_mul_f n x z2 v2).
Proof.
  induction n as [|n IH]; intros x z1 z2 v1 v2; [reflexivity|].
  cbn [gf128_mul_f].
  change (if N.odd (N.lxor v1 v2) then N.lxor (N.shiftr (N.lxor v1 v2) 1) gf128_R
          else N.shiftr (N.lxor v1 v2) 1) with (gf128_vstep (N.lxor v1 v2)).
  change (if N.odd v1 then N.lxor (N.shiftr v1 1) gf128_R else N.shiftr v1 1) with (gf128_vstep v1).
  change (if N.odd v2 then N.lxor (N.shiftr v2 1) gf128_R else N.shiftr v2 1) with (gf128_vstep v2).
  rewrite gf128_vstep_add.
  destruct (N.testbit x (N.of_nat n)); rewrite <- IH; f_equal.
  apply lxor_swap_mid.
Qed.

Lemma gf128_mul_add_r x h1 h2 :
  gf128_mul x (N.lxor h1 h2) = N.lxor (gf128_mul x h1) (gf128_mul x h2).
Proof.
  unfold gf128_mul. rewrite <- gf128_mul_f_add_r, N.lxor_0_r. reflexivity.
Qed.



