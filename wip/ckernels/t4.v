From Coq Require Import NArith ZArith List Lia Bool Arith ZifyN.
From ISAL Require Import Base.Words Base.ListUtil Proofs.WordsFacts Proofs.ChunkFacts Spec.Murmur3
  Model.CKernel Proofs.CKernelFacts Gen.CKernelGen.
Import ListNotations.
Local Open Scope N_scope.
Definition tl_split := Eval vm_compute in split_while c_murmur3_tail_body.
Definition tl_pre := Eval vm_compute in match tl_split with Some (a, _, _) => a | None => [] end.
Definition tl_p := Eval vm_compute in match tl_split with Some (_, (p, _, _), _) => p | None => [] end.
Definition tl_c := Eval vm_compute in match tl_split with Some (_, (_, c, _), _) => c | None => EConst 0 end.
Definition tl_b := Eval vm_compute in match tl_split with Some (_, (_, _, b), _) => b | None => [] end.
Definition tl_post := Eval vm_compute in match tl_split with Some (_, _, z) => z | None => [] end.
Goal forall total_len h1 h2 b0 b1 b2 b3 b4 b5 b6 b7 b8 b9 b10 b11 b12 b13 b14 j0 j1 j2 j3 j4 j5 j6 j7 j8 j9 j10 j11 j12 j13 j14 j15,
  wrap 32 total_len mod 16 = 15 ->
  exists st', exec 200 (tl_pre ++ [SWhile tl_p tl_c tl_b]) (mkstate [Some (wrap 32 total_len); None; None; None; None; None; None; None; None; None; None; None; None; None; None]
          [mkobj 8 [b0;b1;b2;b3;b4;b5;b6;b7;b8;b9;b10;b11;b12;b13;b14]; mkobj 64 [h1;h2]; mkobj 8 [j0;j1;j2;j3;j4;j5;j6;j7;j8;j9;j10;j11;j12;j13;j14;j15]]) = Some st'.
Proof.
  intros. eexists. unfold tl_pre, tl_p, tl_c, tl_b. cbn [app].
  Time ck_steps ltac:(idtac; rewrite H).
  Show.
Abort.
