(* ckernels vertical — symbolic specification of the SM3 compression function (Spec/SM3.v) over the
   table monad.  Definitions only. *)
From Coq Require Import NArith List Bool Arith.
From ISAL Require Import Base.Words Base.ListUtil Spec.MD Spec.SHA1 Spec.SM3 Model.CKernel Model.CKSym Model.CKSymSpec.
Import ListNotations.
Local Open Scope N_scope.

Definition sy3_p0 (x : N) : M N := a <- mk_rol 32 9 x ;; b <- mk_rol 32 17 x ;; mk_xor3 32 x a b.
Definition sy3_p1 (x : N) : M N := a <- mk_rol 32 15 x ;; b <- mk_rol 32 23 x ;; mk_xor3 32 x a b.
Definition sy3_ff (lo : bool) (x y z : N) : M N :=
  if lo then mk_xor3 32 x y z
  else a <- mk_and 32 x y ;; b <- mk_and 32 x z ;; c <- mk_and 32 y z ;; t <- mk_or 32 a b ;; mk_or 32 t c.
Definition sy3_gg (lo : bool) (x y z : N) : M N :=
  if lo then mk_xor3 32 x y z
  else a <- mk_and 32 x y ;; n <- mk_not 32 x ;; b <- mk_and 32 n z ;; mk_or 32 a b.

Fixpoint sy3_sched (n : nat) (w : list N) : M (list N) :=
  match n with
  | O => ret []
  | S m =>
      match w with
      | [w0; w1; w2; w3; w4; w5; w6; w7; w8; w9; w10; w11; w12; w13; w14; w15] =>
          r <- mk_rol 32 15 w13 ;; t <- mk_xor3 32 w0 w7 r ;; p <- sy3_p1 t ;;
          r7 <- mk_rol 32 7 w3 ;; x <- mk_xor3 32 p r7 w10 ;;
          rest <- sy3_sched m [w1; w2; w3; w4; w5; w6; w7; w8; w9; w10; w11; w12; w13; w14; w15; x] ;;
          ret (x :: rest)
      | _ => ret []
      end
  end.

Definition sy3_ww (p : N * N) : M (N * N) := x <- mk_xor 32 (fst p) (snd p) ;; ret (fst p, x).

Definition sy3_round (s : st8) (x : (N * N) * (N * bool)) : M st8 :=
  let '(a, b, c, d, e, f, g, h) := s in
  let '((w, w'), (t, lo)) := x in
  a12 <- mk_rol 32 12 a ;; tt <- mk_const t ;;
  x1 <- mk_add 32 a12 e ;; x2 <- mk_add 32 x1 tt ;; ss1 <- mk_rol 32 7 x2 ;; ss2 <- mk_xor 32 ss1 a12 ;;
  ff <- sy3_ff lo a b c ;; y1 <- mk_add 32 ff d ;; y2 <- mk_add 32 ss2 w' ;; tt1 <- mk_add 32 y1 y2 ;;
  gg <- sy3_gg lo e f g ;; z1 <- mk_add 32 gg h ;; z2 <- mk_add 32 ss1 w ;; tt2 <- mk_add 32 z1 z2 ;;
  b9 <- mk_rol 32 9 b ;; p0 <- sy3_p0 tt2 ;; f19 <- mk_rol 32 19 f ;;
  ret (tt1, a, b9, c, p0, e, f19, g).

Definition sy3_compress_words (v m : list N) : M (list N) :=
  match v with
  | [v0; v1; v2; v3; v4; v5; v6; v7] =>
      sch <- sy3_sched 52 m ;;
      let W := m ++ sch in
      WW <- mmap sy3_ww (combine W (skipn 4 W)) ;;
      st <- sy_fold sy3_round (combine WW sm3_consts) (v0, v1, v2, v3, v4, v5, v6, v7) ;;
      let '(a, b, c, d, e, f, g, h) := st in
      r0 <- mk_xor 32 a v0 ;; r1 <- mk_xor 32 b v1 ;; r2 <- mk_xor 32 c v2 ;; r3 <- mk_xor 32 d v3 ;;
      r4 <- mk_xor 32 e v4 ;; r5 <- mk_xor 32 f v5 ;; r6 <- mk_xor 32 g v6 ;; r7 <- mk_xor 32 h v7 ;;
      ret [r0; r1; r2; r3; r4; r5; r6; r7]
  | _ => fail
  end.
