From Coq Require Import NArith List Lia Bool Arith.
From ISAL Require Import Base.Words Base.ListUtil Proofs.WordsFacts Proofs.ChunkFacts Spec.Murmur3
  Model.CKernel Proofs.CKernelFacts Gen.CKernelGen.
Import ListNotations.
Local Open Scope N_scope.
Definition blk_split := Eval vm_compute in split_while c_murmur3_block_body.
Definition blk_b := Eval vm_compute in match blk_split with Some (_, (_, _, b), _) => b | None => [] end.
Definition b5 := Eval vm_compute in firstn 5 (skipn 2 blk_b).
Definition b10 := Eval vm_compute in firstn 10 (skipn 2 blk_b).
Definition b15 := Eval vm_compute in firstn 15 (skipn 2 blk_b).
Goal forall F r n i o0 o1 o3 o4 o5 o6 o7 o8 o9 o10 o11 o12 o13 o14 o15 o16 o17 o18 o19 o20 o21 o22 o23 o24 words h1 h2, exec (5 + F) (b5 ++ r) (mkstate [Some n; Some o0; Some o1; Some i; o3; o4; o5; o6; o7; o8; o9; o10; o11; o12;
          o13; o14; o15; o16; o17; o18; o19; o20; o21; o22; o23; o24] [mkobj 64 words; mkobj 64 [h1; h2]]) = None.
intros. unfold b5.
Time ck_cbn.
Abort.
Goal forall F r n i o0 o1 o3 o4 o5 o6 o7 o8 o9 o10 o11 o12 o13 o14 o15 o16 o17 o18 o19 o20 o21 o22 o23 o24 words h1 h2, exec (10 + F) (b10 ++ r) (mkstate [Some n; Some o0; Some o1; Some i; o3; o4; o5; o6; o7; o8; o9; o10; o11; o12;
          o13; o14; o15; o16; o17; o18; o19; o20; o21; o22; o23; o24] [mkobj 64 words; mkobj 64 [h1; h2]]) = None.
intros. unfold b10.
Time ck_cbn.
Show.
Abort.
Goal forall F r n i o0 o1 o3 o4 o5 o6 o7 o8 o9 o10 o11 o12 o13 o14 o15 o16 o17 o18 o19 o20 o21 o22 o23 o24 words h1 h2, exec (15 + F) (b15 ++ r) (mkstate [Some n; Some o0; Some o1; Some i; o3; o4; o5; o6; o7; o8; o9; o10; o11; o12;
          o13; o14; o15; o16; o17; o18; o19; o20; o21; o22; o23; o24] [mkobj 64 words; mkobj 64 [h1; h2]]) = None.
intros. unfold b15.
Time ck_cbn.
Abort.
