(* ckernels vertical — the specifications' compression functions re-expressed over the table monad
   of Model/CKSym.v (same structure as Spec/SHA256.v, Spec/SHA1.v; every word operation replaced
   by the smart constructor).  Proofs/CKSymSpecFacts.v proves that they denote the Spec functions.
   Definitions only. *)
From Coq Require Import NArith List Bool Arith.
From ISAL Require Import Base.Words Base.ListUtil Spec.MD Spec.SHA1 Spec.SHA256 Model.CKernel.
From WX Require Import CKSymX.
Import ListNotations.
Local Open Scope N_scope.

Fixpoint mmap {A B} (f : A -> M B) (l : list A) : M (list B) :=
  match l with
  | [] => ret []
  | x :: r => y <- f x ;; ys <- mmap f r ;; ret (y :: ys)
  end.

Definition mk_xor3 (w : N) (a b c : N) : M N := t <- mk_xor w a b ;; mk_xor w t c.

(* ---- SHA-256 ---- *)
Definition sy256_S0 (x : N) : M N :=
  a <- mk_ror 32 2 x ;; b <- mk_ror 32 13 x ;; c <- mk_ror 32 22 x ;; mk_xor3 32 a b c.
Definition sy256_S1 (x : N) : M N :=
  a <- mk_ror 32 6 x ;; b <- mk_ror 32 11 x ;; c <- mk_ror 32 25 x ;; mk_xor3 32 a b c.
Definition sy256_s0 (x : N) : M N :=
  a <- mk_ror 32 7 x ;; b <- mk_ror 32 18 x ;; c <- mk_shr 3 x ;; mk_xor3 32 a b c.
Definition sy256_s1 (x : N) : M N :=
  a <- mk_ror 32 17 x ;; b <- mk_ror 32 19 x ;; c <- mk_shr 10 x ;; mk_xor3 32 a b c.
Definition sy_ch (w : N) (x y z : N) : M N :=
  a <- mk_and w x y ;; n <- mk_not w x ;; b <- mk_and w n z ;; mk_xor w a b.
Definition sy_maj (w : N) (x y z : N) : M N :=
  a <- mk_and w x y ;; b <- mk_and w x z ;; c <- mk_and w y z ;; mk_xor3 w a b c.

Fixpoint sy256_sched (n : nat) (w : list N) : M (list N) :=
  match n with
  | O => ret []
  | S m =>
      match w with
      | [w0; w1; w2; w3; w4; w5; w6; w7; w8; w9; w10; w11; w12; w13; w14; w15] =>
          s1 <- sy256_s1 w14 ;; a <- mk_add 32 s1 w9 ;;
          s0 <- sy256_s0 w1 ;; b <- mk_add 32 s0 w0 ;;
          x <- mk_add 32 a b ;;
          r <- sy256_sched m [w1; w2; w3; w4; w5; w6; w7; w8; w9; w10; w11; w12; w13; w14; w15; x] ;;
          ret (x :: r)
      | _ => ret []
      end
  end.

Definition st8 := (N * N * N * N * N * N * N * N)%type.

Definition sy256_round (s : st8) (wk : N * N) : M st8 :=
  let '(a, b, c, d, e, f, g, h) := s in
  let '(w, k) := wk in
  kk <- mk_const k ;;
  s1 <- sy256_S1 e ;; x1 <- mk_add 32 h s1 ;;
  ch <- sy_ch 32 e f g ;; x2 <- mk_add 32 ch kk ;;
  x3 <- mk_add 32 x1 x2 ;; t1 <- mk_add 32 x3 w ;;
  s0 <- sy256_S0 a ;; mj <- sy_maj 32 a b c ;; t2 <- mk_add 32 s0 mj ;;
  na <- mk_add 32 t1 t2 ;; ne <- mk_add 32 d t1 ;;
  ret (na, a, b, c, ne, e, f, g).

Fixpoint sy_fold {S X} (f : S -> X -> M S) (l : list X) (s : S) : M S :=
  match l with
  | [] => ret s
  | x :: r => s' <- f s x ;; sy_fold f r s'
  end.

Definition sy256_compress_words (hh m : list N) : M (list N) :=
  match hh with
  | [h0; h1; h2; h3; h4; h5; h6; h7] =>
      sch <- sy256_sched 48 m ;;
      st <- sy_fold sy256_round (combine (m ++ sch) sha256_K) (h0, h1, h2, h3, h4, h5, h6, h7) ;;
      let '(a, b, c, d, e, f, g, h) := st in
      r0 <- mk_add 32 h0 a ;; r1 <- mk_add 32 h1 b ;; r2 <- mk_add 32 h2 c ;; r3 <- mk_add 32 h3 d ;;
      r4 <- mk_add 32 h4 e ;; r5 <- mk_add 32 h5 f ;; r6 <- mk_add 32 h6 g ;; r7 <- mk_add 32 h7 h ;;
      ret [r0; r1; r2; r3; r4; r5; r6; r7]
  | _ => fail
  end.

(* the message words are the byte-swapped little-endian words the C loads *)
Definition sy_be_compress (cw : list N -> list N -> M (list N)) (w : N) (hh mle : list N) : M (list N) :=
  m <- mmap (mk_bswap w) mle ;; cw hh m.

(* ---- the check: run the translated body on the variable table, run the specification in the
   resulting table, compare the indices of the results ---- *)
Definition ids (a n : nat) : list N := map N.of_nat (seq a n).

Fixpoint ck_cells_from (a : nat) (l : list (N * nat)) : list (N * list N) :=
  match l with [] => [] | (w, n) :: r => (w, ids a n) :: ck_cells_from (a + n)%nat r end.
Definition ck_cells (objs : list (N * nat)) : list (N * list N) := ck_cells_from 0 objs.
Definition ck_t0 (objs : list (N * nat)) : tbl :=
  var_table (flat_map (fun p : N * nat => repeat (fst p) (snd p)) objs).
Definition ck_st0 (nvars : nat) (objs : list (N * nat)) : sstate :=
  {| sv := repeat None nvars; so := ck_cells objs |}.

Definition ck_check (body : list stmt) (fuel nvars : nat) (objs : list (N * nat)) (out : nat)
                    (spec : list (list N) -> M (list N)) : bool :=
  match sexec fuel body (ck_st0 nvars objs) (ck_t0 objs) with
  | Some (st1, t1) =>
      match nth_error (so st1) out, spec (map snd (ck_cells objs)) t1 with
      | Some (_, res), Some (want, _) => list_nat_eqb res want
      | _, _ => false
      end
  | None => false
  end.
