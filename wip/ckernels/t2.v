(* ckernels vertical — the translated murmur3 kernels equal Spec/Murmur3.v for all inputs. *)
From Coq Require Import NArith ZArith List Lia Bool Arith ZifyN.
From ISAL Require Import Base.Words Base.ListUtil Proofs.WordsFacts Proofs.ChunkFacts Spec.Murmur3
  Model.CKernel Proofs.CKernelFacts Gen.CKernelGen.
Import ListNotations.
Local Open Scope N_scope.

(* ---------------------------------------------------------------- list facts *)

Lemma length_chunks_mult {A} n : (n > 0)%nat -> forall k (l : list A), length l = (k * n)%nat -> length (chunks n l) = k.
Proof.
  intros Hn. induction k as [|k IH]; intros l Hl.
  - destruct l; [reflexivity|cbn in Hl; lia].
  - rewrite chunks_cons by (first [lia | intros ->; cbn in Hl; lia]). cbn [length]. f_equal.
    apply IH. rewrite skipn_length. lia.
Qed.

(* word j of the little-endian k-byte view of a byte string *)
Lemma le_words_nth k (Hk : (k > 0)%nat) (pre blk rest : list N) j :
  length pre = (j * k)%nat -> length blk = k ->
  nth_error (le_words k (pre ++ blk ++ rest)) j = Some (le_to_N blk).
Proof.
  intros Hp Hb. unfold le_words.
  rewrite chunks_app by (first [lia | exists j; exact Hp]). rewrite map_app.
  rewrite nth_error_app2 by (rewrite map_length, (length_chunks_mult k Hk j pre Hp); lia).
  rewrite map_length, (length_chunks_mult k Hk j pre Hp), Nat.sub_diag.
  rewrite chunks_cons by (first [lia | destruct blk; [cbn in Hb; lia|discriminate]]).
  cbn [map nth_error]. rewrite firstn_app_exact by (symmetry; exact Hb). reflexivity.
Qed.

Lemma le_words_length k (Hk : (k > 0)%nat) (l : list N) j : length l = (j * k)%nat -> length (le_words k l) = j.
Proof. intros H. unfold le_words. rewrite map_length. apply length_chunks_mult; assumption. Qed.

(* ---------------------------------------------------------------- small arithmetic *)

Ltac w32 := change (2 ^ 32) with 4294967296 in *; change (2 ^ 31) with 2147483648 in *.

Lemma wrap32_small x : x < 2 ^ 32 -> wrap 32 x = x.
Proof. apply wrap_small. Qed.

Ltac Zify.zify_post_hook ::= Z.to_euclidean_division_equations.
Ltac solve_idx :=
  unfold wrap; rewrite ?N.land_ones; w32; lia.

(* a load from a word-celled object whose cells are an abstract list *)
Lemma load_abs (cells : list N) idx j v :
  idx = j -> j < N.of_nat (length cells) -> nth_error cells (N.to_nat j) = Some v ->
  (if idx <? N.of_nat (length cells) then nth_error cells (N.to_nat idx) else None) = Some v.
Proof. intros -> Hj Hn. destruct (N.ltb_spec j (N.of_nat (length cells))); [exact Hn|lia]. Qed.

Ltac ck_bound :=
  repeat first [ assumption | apply wrap_lt | apply rol_lt | apply lxor_lt | apply lor_lt
               | apply shiftr_lt_same ].

Ltac rol_norm :=
  repeat match goal with
  | |- context [N.lor (wrap ?k (N.shiftl ?x ?r)) (N.shiftr ?x ?s)] =>
      rewrite (rol_from_shifts k x r s) by (first [ reflexivity | ck_bound ])
  | |- context [N.lxor (wrap ?k (N.shiftl ?x ?r)) (N.shiftr ?x ?s)] =>
      rewrite (rol_from_shifts_xor k x r s) by (first [ reflexivity | ck_bound ])
  end.

(* explicit list from a length hypothesis *)
Ltac explode vars H :=
  repeat (destruct vars as [|? vars]; cbn [length] in H; try discriminate H).

(* ================================================================ _murmur3_x64_128_block *)

Definition blk_split := Eval vm_compute in split_while c_murmur3_block_body.
Definition blk_pre := Eval vm_compute in match blk_split with Some (a, _, _) => a | None => [] end.
Definition blk_p := Eval vm_compute in match blk_split with Some (_, (p, _, _), _) => p | None => [] end.
Definition blk_c := Eval vm_compute in match blk_split with Some (_, (_, c, _), _) => c | None => EConst 0 end.
Definition blk_b := Eval vm_compute in match blk_split with Some (_, (_, _, b), _) => b | None => [] end.
Definition blk_post := Eval vm_compute in match blk_split with Some (_, _, z) => z | None => [] end.
(* the loop counter and the bound: `while (i < num_blocks)` *)
Definition blk_ci := Eval vm_compute in match blk_c with ECmp CLt (EVar i) (EVar _) => i | _ => 0%nat end.
Definition blk_cn := Eval vm_compute in match blk_c with ECmp CLt (EVar _) (EVar n) => n | _ => 0%nat end.
Definition blk_nv := Eval vm_compute in length (st_vars (c_murmur3_block_init [] 0 [])).

Lemma blk_body_eq : c_murmur3_block_body = blk_pre ++ SWhile blk_p blk_c blk_b :: blk_post.
Proof. reflexivity. Qed.
Lemma blk_cond_eq : blk_c = ECmp CLt (EVar blk_ci) (EVar blk_cn).
Proof. reflexivity. Qed.
Lemma blk_p_eq : blk_p = [].
Proof. reflexivity. Qed.

(* one block, on the two lanes *)
Definition mur_body_k (h : N * N) (k : N * N) : N * N :=
  let '(h1, h2) := h in
  let '(k1, k2) := k in
  let h1 := mur_mix_h h1 h2 (mur_k1 k1) 27 0x52dce729 in
  let h2 := mur_mix_h h2 h1 (mur_k2 k2) 31 0x38495ab5 in
  (h1, h2).

Lemma mur_body_lanes h b : mur_body h b = mur_body_k h (mur_lanes b).
Proof. destruct h. reflexivity. Qed.

Lemma mur_body_k_lt h k : fst (mur_body_k h k) < 2 ^ 64 /\ snd (mur_body_k h k) < 2 ^ 64.
Proof. destruct h, k. cbn. unfold mur_mix_h, add64, w64. split; apply wrap_lt. Qed.

Section Block.
Variables (words : list N) (n : N).
Hypothesis Hn : n < 2 ^ 31.

Definition BInv (i : N) (h : N * N) (st : state) : Prop :=
  exists vars, st = mkstate vars [mkobj 64 words; mkobj 64 [fst h; snd h]] /\
               length vars = blk_nv /\
               nth_error vars blk_ci = Some (Some i) /\ nth_error vars blk_cn = Some (Some n).

Lemma blk_iter i h k1 k2 st :
  i < n -> 2 * i + 1 < N.of_nat (length words) ->
  nth_error words (N.to_nat (2 * i)) = Some k1 -> nth_error words (N.to_nat (2 * i + 1)) = Some k2 ->
  fst h < 2 ^ 64 -> snd h < 2 ^ 64 -> BInv i h st ->
  exists st', runs blk_b st st' /\ BInv (i + 1) (mur_body_k h (k1, k2)) st'.
Proof.
  intros Hi Hlen Hk1 Hk2 Hh1 Hh2 (vars & -> & Hlv & Hci & Hcn). destruct h as [h1 h2]. cbn [fst snd] in *.
  unfold blk_nv in Hlv. explode vars Hlv.
  cbn in Hci, Hcn. inversion Hci; inversion Hcn; subst. clear Hci Hcn Hlv.
  eexists. split.
  - apply (exec_runs (length blk_b)). unfold blk_b. cbn [length].
    Time ck_steps ltac:(idtac;
      match goal with
      | |- context [if ?idx <? N.of_nat (length words) then nth_error words (N.to_nat ?idx) else None] =>
          first [ rewrite (load_abs words idx (2 * i) k1) by (first [ exact Hk1 | solve_idx ])
                | rewrite (load_abs words idx (2 * i + 1) k2) by (first [ exact Hk2 | solve_idx ]) ]
      end).
    reflexivity.
  - eexists. split; [|split; [|split]].
    + unfold mkstate, mkobj. f_equal. f_equal. f_equal. f_equal.
      cbn [mur_body_k fst snd]. rol_norm.
      unfold mur_mix_h, mur_k1, mur_k2, mur_mix_k, add64, mul64, rol64, w64, mur_c1, mur_c2.
      reflexivity.
    + reflexivity.
    + cbn. f_equal. f_equal. solve_idx.
    + reflexivity.
Qed.

Hypothesis Hwords : N.of_nat (length words) = 2 * n.

Definition lane (j : nat) : N * N :=
  (nth (N.to_nat (2 * N.of_nat j)) words 0, nth (N.to_nat (2 * N.of_nat j + 1)) words 0).

Lemma blk_cond st i vars objs :
  st = mkstate vars objs -> nth_error vars blk_ci = Some (Some i) -> nth_error vars blk_cn = Some (Some n) ->
  eval st blk_c = Some (if i <? n then 1 else 0).
Proof.
  intros -> Hci Hcn. unfold blk_c, blk_ci, blk_cn in *.
  cbn [eval get_var st_vars mkstate]. Show.
Admitted.
End Block.
