(* ckernels vertical — the translated sha256_single (sha256_mb/sha256_ctx_base.c) equals
   Spec/SHA256.v sha256_compress for every chaining value and every 64-byte block.

   Method: the whole straight-line body is executed symbolically once, one statement at a time,
   every computed value getting a name and an equation (Proofs/CKernelFacts.v ck_steps).  Then the
   specification is advanced step by step - 48 message-schedule steps, 64 rounds - and each new
   specification value is identified with the oldest not yet used C value that equals it after
   normalisation (rotations from shift pairs, sums modulo 2^32 up to associativity and
   commutativity, commutativity of &).  Nothing refers to statement positions, variable
   numbers or which C variable plays which role in which round. *)
From Coq Require Import NArith ZArith List Lia Bool Arith Ring.
From ISAL Require Import Base.Words Base.ListUtil Proofs.WordsFacts Spec.MD Spec.SHA1 Spec.SHA256
  Model.CKernel Proofs.CKernelFacts Gen.CKernelGen.
Import ListNotations.
Local Open Scope N_scope.

(* ---------------------------------------------------------------- bytes and words *)

Lemma land_lor_shiftl_low a r : a < 2 ^ 8 -> N.land (N.lor a (N.shiftl r 8)) 255 = a.
Proof.
  intros Ha. apply N.bits_inj. intro i. rewrite N.land_spec, N.lor_spec.
  change 255 with (N.ones 8).
  destruct (N.ltb_spec i 8).
  - rewrite N.ones_spec_low, N.shiftl_spec_low by assumption. rewrite orb_false_r, andb_true_r. reflexivity.
  - rewrite N.ones_spec_high by assumption. rewrite andb_false_r. symmetry. apply (testbit_high a 8); assumption.
Qed.

Lemma shiftr_lor_shiftl_low a r : a < 2 ^ 8 -> N.shiftr (N.lor a (N.shiftl r 8)) 8 = r.
Proof.
  intros Ha. apply N.bits_inj. intro i. rewrite N.shiftr_spec, N.lor_spec by lia.
  rewrite (testbit_high a 8) by (try assumption; lia). cbn [orb].
  rewrite N.shiftl_spec_high by lia. f_equal. lia.
Qed.

Lemma be32_bswap a b c d :
  a < 2 ^ 8 -> b < 2 ^ 8 -> c < 2 ^ 8 -> d < 2 ^ 8 ->
  be32 [a; b; c; d] = bswap 32 (le_to_N [a; b; c; d]).
Proof.
  intros Ha Hb Hc Hd. unfold bswap. change (N.to_nat (32 / 8)) with 4%nat.
  cbv [le_to_N N_to_le].
  rewrite N.shiftl_0_l, N.lor_0_r.
  rewrite (land_lor_shiftl_low a) by assumption.
  rewrite (shiftr_lor_shiftl_low a) by assumption.
  rewrite (land_lor_shiftl_low b) by assumption.
  rewrite (shiftr_lor_shiftl_low b) by assumption.
  rewrite (land_lor_shiftl_low c) by assumption.
  rewrite (shiftr_lor_shiftl_low c) by assumption.
  replace (N.land d 255) with d.
  2:{ symmetry. change 255 with (N.ones 8). rewrite N.land_ones. apply N.mod_small. exact Hd. }
  cbv [rev app le_to_N be32]. rewrite N.shiftl_0_l, N.lor_0_r.
  rewrite !N.shiftl_lor, !N.shiftl_shiftl.
  cfold.
  apply N.bits_inj. intro i. rewrite !N.lor_spec.
  destruct (N.testbit (N.shiftl a 24) i), (N.testbit (N.shiftl b 16) i), (N.testbit (N.shiftl c 8) i), (N.testbit d i); reflexivity.
Qed.

Lemma shiftl_lt a k n : a < 2 ^ k -> N.shiftl a n < 2 ^ (k + n).
Proof.
  intros Ha. rewrite N.shiftl_mul_pow2, N.pow_add_r. apply N.mul_lt_mono_pos_r; [|exact Ha].
  apply N.neq_0_lt_0, N.pow_nonzero. discriminate.
Qed.

Lemma be32_lt a b c d : a < 2 ^ 8 -> b < 2 ^ 8 -> c < 2 ^ 8 -> d < 2 ^ 8 -> be32 [a; b; c; d] < 2 ^ 32.
Proof.
  intros Ha Hb Hc Hd. cbv [be32]. repeat apply lor_lt.
  - apply (shiftl_lt a 8 24 Ha).
  - apply N.lt_le_trans with (2 ^ (8 + 16)); [apply (shiftl_lt b 8 16 Hb)|apply N.pow_le_mono_r; [discriminate|]]. discriminate.
  - apply N.lt_le_trans with (2 ^ (8 + 8)); [apply (shiftl_lt c 8 8 Hc)|apply N.pow_le_mono_r; [discriminate|]]. discriminate.
  - apply N.lt_le_trans with (2 ^ 8); [exact Hd|apply N.pow_le_mono_r; discriminate].
Qed.

(* sums modulo 2^k: inner wraps do not matter *)
Lemma wrap_add_l k a b : wrap k (wrap k a + b) = wrap k (a + b).
Proof. rewrite !wrap_mod. apply N.add_mod_idemp_l. apply N.pow_nonzero. discriminate. Qed.
Lemma wrap_add_r k a b : wrap k (a + wrap k b) = wrap k (a + b).
Proof. rewrite !wrap_mod. apply N.add_mod_idemp_r. apply N.pow_nonzero. discriminate. Qed.

Lemma ror_rol k x r s : r + s = k -> ror k x r = rol k x s.
Proof. intros H. unfold ror, rol. replace (k - r) with s by lia. replace (k - s) with r by lia. rewrite N.lor_comm. reflexivity. Qed.

Lemma ror_from_shifts_xor k x r s :
  x < 2 ^ k -> r + s = k -> N.lxor (N.shiftr x r) (wrap k (N.shiftl x s)) = ror k x r.
Proof.
  intros Hx Hk. rewrite N.lxor_comm, (ror_rol k x r s Hk). apply rol_from_shifts_xor; [exact Hx|lia].
Qed.
Lemma ror_from_shifts_or k x r s :
  x < 2 ^ k -> r + s = k -> N.lor (N.shiftr x r) (wrap k (N.shiftl x s)) = ror k x r.
Proof. apply ror_from_shifts. Qed.

(* ---------------------------------------------------------------- normalisation *)

Ltac bnd :=
  repeat first [ assumption | apply wrap_lt | apply rol_lt | apply lxor_lt | apply lor_lt
               | apply land_lt_l; assumption | apply shiftr_lt_same ].

(* rotations written as two shifts joined by ^ or | *)
Ltac rot_norm :=
  repeat match goal with
  | |- context [N.lxor (N.shiftr ?x ?r) (wrap ?k (N.shiftl ?x ?s))] =>
      rewrite (ror_from_shifts_xor k x r s) by (first [ reflexivity | bnd ])
  | |- context [N.lor (N.shiftr ?x ?r) (wrap ?k (N.shiftl ?x ?s))] =>
      rewrite (ror_from_shifts_or k x r s) by (first [ reflexivity | bnd ])
  | |- context [N.lxor (wrap ?k (N.shiftl ?x ?r)) (N.shiftr ?x ?s)] =>
      rewrite (rol_from_shifts_xor k x r s) by (first [ reflexivity | bnd ])
  | |- context [N.lor (wrap ?k (N.shiftl ?x ?r)) (N.shiftr ?x ?s)] =>
      rewrite (rol_from_shifts k x r s) by (first [ reflexivity | bnd ])
  end.

(* sums modulo 2^k up to associativity / commutativity *)
Ltac sum_norm :=
  repeat first [ rewrite wrap_add_l | rewrite wrap_add_r ];
  first [ reflexivity | (f_equal; ring) ].

Ltac spec_unfold :=
  unfold add32, w32, sha256_S0, sha256_S1, sha256_s0, sha256_s1, ch32, maj32, not32, ror32, rol32.

(* [lhs = rhs] where lhs is a specification term and rhs the C form *)
Ltac prove_eq :=
  spec_unfold; rot_norm;
  repeat rewrite (N.land_comm _ (N.lxor (wrap _ _) (N.ones _)));
  sum_norm.

(* ---------------------------------------------------------------- the run *)

Lemma c_sha256_single_mono d h j a b r :
  (a <= b)%nat -> c_sha256_single a d h j = Some r -> c_sha256_single b d h j = Some r.
Proof.
  unfold c_sha256_single. intros Hab H.
  destruct (exec a c_sha256_single_body _) eqn:E; [|discriminate].
  rewrite (exec_mono _ _ _ _ E b Hab). exact H.
Qed.

Ltac explode l H := repeat (destruct l as [|? l]; cbn [length] in H; try discriminate H).
Ltac forall_inv :=
  repeat match goal with
  | H : Forall _ (_ :: _) |- _ => inversion H; clear H; subst
  | H : Forall _ [] |- _ => clear H
  end.


Definition sha_segs := Eval vm_compute in chunks 8 c_sha256_single_body.
Lemma sha_segs_eq : c_sha256_single_body = concat sha_segs.
Proof. vm_compute. reflexivity. Qed.

Lemma runs_concat_cons (P : state -> Prop) s0 rest st st1 :
  runs s0 st st1 -> (exists st', runs (concat rest) st1 st' /\ P st') ->
  exists st', runs (concat (s0 :: rest)) st st' /\ P st'.
Proof. intros H (st' & Hr & HP). exists st'. split; [|exact HP]. cbn [concat]. eapply runs_app; eassumption. Qed.
Lemma runs_concat_nil (P : state -> Prop) st : P st -> exists st', runs (concat []) st st' /\ P st'.
Proof. intros HP. exists st. split; [apply runs_nil|exact HP]. Qed.

(* the stepper without naming (inside a chunk: the end state must only mention what is in scope) *)
Ltac ck_step_nn hook :=
  lazymatch goal with
  | |- exec (S ?f) (SAssign ?x ?e :: ?r) ?st = _ =>
      let H := fresh "Hev" in
      eassert (H : eval st e = Some _) by (ck_solve hook);
      erewrite (exec_assign f x e r st _ _ H) by (ck_solve hook); clear H
  | |- exec (S ?f) (SStore ?o ?aw ?i ?e :: ?r) ?st = _ =>
      let Hi := fresh "Hev" in let He := fresh "Hev" in
      eassert (Hi : eval st i = Some _) by (ck_solve hook);
      eassert (He : eval st e = Some _) by (ck_solve hook);
      erewrite (exec_store f o aw i e r st _ _ _ Hi He) by (ck_solve hook); clear Hi He
  | |- exec (S ?f) (SIf ?c ?a ?b :: ?r) ?st = _ =>
      let H := fresh "Hev" in
      eassert (H : eval st c = Some _) by (ck_solve hook);
      rewrite (exec_if f c a b r st _ H); clear H; try unfold cmp_eval; cfold; cbv iota; cfold; cbv iota; cbn [app]
  | |- exec (S ?f) (SWhile ?p ?c ?b :: ?r) ?st = _ =>
      rewrite (exec_while f p c b r st); cbn [app]
  | |- exec _ [] ?st = _ => rewrite exec_nil
  end.

(* give every compound value held in the state a name *)
Ltac is_compound t :=
  lazymatch t with
  | wrap _ _ => idtac | N.lxor _ _ => idtac | N.lor _ _ => idtac | N.land _ _ => idtac
  | bswap _ _ => idtac | N.shiftr _ _ => idtac | N.add _ _ => idtac
  end.
Ltac abstract_vals :=
  repeat match goal with
  | |- context [@Some N ?t] => is_compound t; let v := fresh "val" in remember t as v
  | |- context [@cons N ?t _] => is_compound t; let v := fresh "val" in remember t as v
  end.

Lemma sha256_run (h block junk : list N) :
  length h = 8%nat -> Forall (fun x => x < 2 ^ 32) h ->
  length block = 64%nat -> Forall (fun x => x < 2 ^ 8) block ->
  exists st', runs (concat sha_segs) (c_sha256_single_init (le_words 4 block) h junk) st' /\
              get_obj st' 1 = Some (sha256_compress h block).
Proof.
  intros Hlh Hbh Hlb Hbb.
  explode h Hlh. explode block Hlb. forall_inv.
  remember (firstn 16 (junk ++ repeat 0 16)) as J eqn:HJ.
  assert (HlJ : length J = 16%nat) by (subst J; rewrite firstn_length, app_length, repeat_length; lia).
  unfold c_sha256_single_init. rewrite <- HJ. clear HJ junk. explode J HlJ. clear HlJ Hlh Hlb.
  cbv [sha256_compress be_words32 le_words chunks chunks_f length firstn skipn map].
  repeat match goal with
  | |- context [be32 [?a; ?b; ?c; ?d]] =>
      let Hb := fresh "Hbw" in
      pose proof (be32_lt a b c d ltac:(assumption) ltac:(assumption) ltac:(assumption) ltac:(assumption)) as Hb;
      rewrite (be32_bswap a b c d ltac:(assumption) ltac:(assumption) ltac:(assumption) ltac:(assumption)) in Hb |- *;
      let m := fresh "m" in remember (le_to_N [a; b; c; d]) as m
  end.
  repeat match goal with H : _ = le_to_N _ |- _ => clear H end.
  repeat match goal with H : ?b < 2 ^ 8 |- _ => clear H end.
  unfold sha_segs.
  Time do 58 (eapply runs_concat_cons;
    [ apply (exec_runs 60); repeat ck_step_nn idtac; reflexivity
    | match goal with |- exists st', runs (concat ?r) _ _ /\ _ => set (R := r) end; abstract_vals; subst R ]).
  Show.
Admitted.
