From Coq Require Import NArith List.
From ISAL Require Import Base.Words Base.ListUtil Spec.MD Spec.SHA1 Spec.SHA256 Spec.Murmur3 Model.CKernel Gen.CKernelGen.
Import ListNotations.
Local Open Scope N_scope.
Fixpoint pat_from (n : nat) (b : N) : list N :=
  match n with O => [] | S m => b :: pat_from m ((b + 7) mod 256) end.
Definition blk := pat_from 64 3.
Time Eval vm_compute in (c_sha256_single 2000 (le_words 4 blk) sha256_iv [], sha256_compress sha256_iv blk).
Time Eval vm_compute in (c_sha1_single 5000 (le_words 4 blk) sha1_iv [], sha1_compress sha1_iv blk).
Time Eval vm_compute in (c_murmur3_block 1000 (le_words 8 blk) 4 [5;6], fold_left mur_body (chunks 16 blk) (5,6)).
Time Eval vm_compute in (c_murmur3_tail 1000 (pat_from 13 9) 0x12345d [5;6] [1;2;3], mur_tail (5,6) (pat_from 13 9) 0x12345d).
