#!/usr/bin/env python3
"""consolidate /verif/seeded: one directory <Cnn>-<x> per verified seed with patch.diff, demo.*, meta.json; README.md table"""
import json, os, re, glob, shutil
S = "/verif/seeded"; W = "/verif/wip/seeds"
trials = {}
for log in ("tryseeds-all.log",):
    for l in open(os.path.join(W, log)):
        m = re.match(r"(\S+) (C\d+) seed=(\d+) exit=(\d+) violations=(\d+) nfif=(\d+) :: (.*)", l)
        if m:
            n, p, sd, rc, v, nf, det = m.groups()
            trials.setdefault(n.lower().replace("-", ""), []).append({"property": p, "VERIF_SEED": int(sd), "exit": int(rc), "violation_lines": int(v),
                                                                     "no_failing_input_found_lines": int(nf), "first_detail": det.strip()[:240]})
rows = []
for d in sorted(os.listdir(S)):
    p = os.path.join(S, d)
    if not os.path.isdir(p):
        continue
    key = d.lower().replace("-", "")
    m = re.match(r"c(\d+)([a-z])$", key)
    if not m:
        continue
    canon = "C%s-%s" % (m.group(1), m.group(2))
    if d != canon:
        os.rename(p, os.path.join(S, canon)); p = os.path.join(S, canon)
    meta = {}
    mp = os.path.join(p, "meta.json")
    if os.path.exists(mp):
        meta = json.load(open(mp))
    sm = os.path.join(p, "meta.seeder.json")
    if os.path.exists(sm):
        try:
            s = json.load(open(sm))
        except Exception:
            s = {}
        meta.setdefault("property", "C" + m.group(1))
        for k in ("summary", "needs_to_manifest", "files_changed"):
            meta.setdefault(k, s.get(k))
        meta.setdefault("seeder_ran", s.get("ran"))
        os.remove(sm)
    meta["property"] = "C" + m.group(1)
    vlog = os.path.join(W, "verify-%s.log" % key)
    if os.path.exists(vlog):
        meta["verified_by_coordinator"] = [l.strip() for l in open(vlog) if l.startswith(("original demo", "patched check", "patched demo", "VERIFIED", "NOT VERIFIED"))]
    meta["what_i_ran"] = ["wip/seeds/verify.sh: fresh worktree of /repo HEAD: build, demo exits 0; apply patch.diff, clean rebuild, `make -f Makefile.unx -k check` shows no new failure, demo exits non-zero",
                          "wip/seeds/tryseeds.sh: VERIF_REPO=<worktree of /repo HEAD + patch.diff> ./check %s at the VERIF_SEED values listed under check_trials" % meta["property"]]
    t = trials.get(key, [])
    meta["check_trials"] = t
    if t:
        concrete = all(x["violation_lines"] > x["no_failing_input_found_lines"] for x in t)
        anyv = all(x["violation_lines"] > 0 for x in t)
        meta["detected_by_check"] = "yes (concrete replay at every seed tried)" if concrete else ("reported at every seed tried, some only as no-failing-input-found" if anyv else "NOT at every seed tried")
    json.dump(meta, open(mp, "w"), indent=1)
    rows.append((canon, meta["property"], (meta.get("summary") or "")[:150].replace("\n", " "), meta.get("detected_by_check", "?"), (t[0]["first_detail"][:110] if t else "")))
with open(os.path.join(S, "README.md"), "w") as fh:
    fh.write("# Independently seeded breaking changes\n\nEach directory: `patch.diff` (applies to /repo HEAD), the seeder's demonstration (`demo.*`), `meta.json` "
             "(property, what it needs to manifest, what was re-run to confirm it, and the outcome of the property's check at several VERIF_SEED values). "
             "Produced by fresh sub-agents that saw only the property text and a scratch worktree. None of these is ever committed to /repo.\n\n"
             "| seed | property | change | check outcome | first detail line |\n|---|---|---|---|---|\n")
    for r in rows:
        fh.write("| %s | %s | %s | %s | %s |\n" % tuple(x.replace("|", "/") for x in r))
print(len(rows), "seeds recorded")
