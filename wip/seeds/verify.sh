#!/bin/bash
# verify.sh <seed-worktree> <name>: independent confirmation of a seeded change in a fresh
# worktree: original: demo exits 0; patched: builds, `check` passes, demo exits non-zero.
# On success the seed is stored under /verif/seeded/<name>/.
set -u
SW=$1; NAME=$2; V=/tmp/vfy-$NAME; LOG=/verif/wip/seeds/verify-$NAME.log
exec >"$LOG" 2>&1
git -C /repo worktree remove --force "$V" 2>/dev/null
git -C /repo worktree add --detach "$V" HEAD || exit 2
mkdir -p "$V/_seed"; for f in "$SW"/_seed/*; do [ -f "$f" ] && case "$f" in *.log|*.out|*/demo|*.a|*.o|*.txt) ;; *) cp "$f" "$V/_seed/";; esac; done
cd "$V"
make -f Makefile.unx -j16 >/dev/null 2>&1 || { echo "ORIG BUILD FAILED"; exit 2; }
make -f Makefile.unx -k -j16 check > _seed/vfy_check_orig.out 2>&1
grep -E "^make: \*\*\* .*\.run\]" _seed/vfy_check_orig.out | sed 's/.*: \(.*\)\.run.*/\1/' | sort > _seed/fail_orig.txt
bash _seed/demo.sh > _seed/vfy_orig.out 2>&1; r0=$?
echo "original demo exit=$r0"
git apply _seed/patch.diff || { echo "PATCH DOES NOT APPLY"; exit 2; }
rm -rf bin
make -f Makefile.unx -j16 >/dev/null 2>&1 || { echo "PATCHED BUILD FAILED"; exit 2; }
make -f Makefile.unx -k -j16 check > _seed/vfy_check.out 2>&1
grep -E "^make: \*\*\* .*\.run\]" _seed/vfy_check.out | sed 's/.*: \(.*\)\.run.*/\1/' | sort > _seed/fail_patched.txt
new=$(comm -13 _seed/fail_orig.txt _seed/fail_patched.txt | tr '\n' ' ')
rc=0; [ -n "$new" ] && rc=1
echo "patched check: tests failing only with the patch: [$new] (pre-existing: $(tr '\n' ' ' < _seed/fail_orig.txt))"
bash _seed/demo.sh > _seed/vfy_patched.out 2>&1; r1=$?
echo "patched demo exit=$r1"; tail -3 _seed/vfy_patched.out
if [ $r0 -eq 0 ] && [ $rc -eq 0 ] && [ $r1 -ne 0 ]; then
  D=/verif/seeded/$NAME; mkdir -p "$D"
  cp _seed/patch.diff "$D/"; cp _seed/demo.* "$D/" 2>/dev/null; cp _seed/meta.json "$D/meta.seeder.json"
  tail -5 _seed/vfy_patched.out > "$D/demo_patched_tail.txt"
  echo "VERIFIED $NAME"
else
  echo "NOT VERIFIED $NAME"
fi
cd /; git -C /repo worktree remove --force "$V"
