#!/usr/bin/env python3
"""print the bug-seeder prompt for property <id> with worktree suffix <sfx> and an angle"""
import json, sys, subprocess
pid, sfx, angle = sys.argv[1], sys.argv[2], sys.argv[3]
p = [json.loads(l) for l in open('/verif/properties.jsonl') if json.loads(l)['id'] == pid][0]
wt = "/tmp/seed-%s%s" % (pid.lower(), sfx)
subprocess.run(["git", "-C", "/repo", "worktree", "add", "--detach", wt, "HEAD"], stdout=subprocess.DEVNULL, stderr=subprocess.DEVNULL)
txt = (f"""You are helping to evaluate a verification tool by acting as a careful "bug seeder". You have your own scratch git worktree of the C/assembly library intel isa-l_crypto at {wt} (work ONLY inside it; never touch /repo or /verif, do not read anything under /verif). Build with `make -f Makefile.unx -j16` (static lib at bin/isa-l_crypto.a, about 1 min; add `FIPS_MODE=y` for a FIPS-mode build); the existing test suite is run with `make -f Makefile.unx -k -j16 check` (and `make -f Makefile.unx -k -j16 test` for the unit tests); NOTE: in this gcc -O2 build `mh_sha256_test` (and possibly mh_sha256 unit tests) FAIL even on the unmodified tree because the test's own reference file mh_sha256_ref.c is miscompiled at -O2 — ignore exactly those; every other test must pass. nasm, gcc, gdb are installed; the host CPU supports SSE4, AVX2, AVX-512, SHA-NI, VAES, VPCLMULQDQ, so every CPU-specific implementation can be executed by calling its internal symbol (e.g. `_sha256_ctx_mgr_submit_sse`, `_aes_gcm_enc_128_avx_gen2`, `_XTS_AES_128_dec_avx`: see `nm bin/isa-l_crypto.a`) directly from a test program linked against the static library, even though the dispatcher would pick the AVX-512 one on this host. No network.

Here is a semantic property the library is supposed to satisfy:

ID: {pid}
TITLE: {p['title']}
STATEMENT: {p['statement']}
QUANTIFIER: {p['quantifier']['text']}
WHY THE EXISTING TESTS CANNOT SETTLE IT: {p['why_tests_cant']}
RELEVANT FILES: {', '.join(p['anchors']['files'])}

YOUR TASK: produce ONE realistic change to the library source (the kind of mistake a maintainer could make in a refactor, optimisation or clean-up) that BREAKS this property while the library still compiles and the ENTIRE existing test suite still passes (`make -f Makefile.unx -k -j16 check` must show no failure other than the pre-existing mh_sha256 ones; run it before and after). The change must need something SPECIFIC to manifest — not something ordinary use exposes at once. ANGLE FOR THIS ASSIGNMENT: {angle}. Prefer subtle over blatant; keep the diff small. Do NOT touch test files, headers' documented contracts, or build files.

DELIVER, inside {wt}/_seed/:
 - patch.diff : `git diff` of your change against HEAD (library source files only),
 - a demonstration: demo.c (or a short script) plus demo.sh containing the exact build+run command; it must exit 0 on the ORIGINAL code and non-zero (printing what went wrong) WITH your change, and it must demonstrate a violation of the property as stated (through the public API or a CPU-specific entry point),
 - meta.json : {{"property":"{pid}","summary":"...","needs_to_manifest":"...","files_changed":[...],"ran":["commands you ran and their outcomes"]}}.
NEVER use `git stash` (the stash is shared between all worktrees of this repository and other people are working in sibling worktrees): to test the original tree use `git diff > /tmp/mine.diff; git checkout -- .; ...; git apply /tmp/mine.diff`. Verify all of it yourself: (1) original tree: demo passes; (2) patched tree: builds, `check` passes, demo fails. Leave the worktree with the patch APPLIED. Final report: the idea, why the tests miss it, what exactly is needed to trigger it, and the commands you ran.""")
open(wt + "/_ASSIGNMENT.md", "w").write(txt)
print(wt)
