#!/bin/bash
# trycheck.sh <seed-dir-name under /verif/seeded> <Cnn> [tier]: apply the seeded patch to a fresh worktree of
# /repo HEAD, run the check against it, remove the worktree.  Prints the tail of the output.
N=$1; P=$2; T=${3:-quick}; W=/tmp/try-$N
git -C /repo worktree remove --force $W 2>/dev/null
git -C /repo worktree add --detach $W HEAD >/dev/null 2>&1 || exit 2
(cd $W && git apply ${PATCH:-/verif/seeded/$N/patch.diff}) || { echo "PATCH DOES NOT APPLY to HEAD"; git -C /repo worktree remove --force $W; exit 2; }
cd /verif && VERIF_REPO=$W ./check $P --tier $T > /verif/wip/seeds/try-$N-$P.out 2>&1; rc=$?
echo "check $P on seed $N: exit=$rc"; grep -E "^(VIOLATION|KNOWN-FINDING|OK)" /verif/wip/seeds/try-$N-$P.out | head -5; grep "detail:" /verif/wip/seeds/try-$N-$P.out | head -3
git -C /repo worktree remove --force $W
