#!/usr/bin/env python3
"""record.py <name> <property> <detected: yes|no|partial> <which check / note>: write /verif/seeded/<name>/meta.json"""
import json, os, sys
name, pid, det, note = sys.argv[1:5]
d = "/verif/seeded/" + name
sm = {}
try:
    sm = json.load(open(d + "/meta.seeder.json"))
except Exception as e:
    sm = {"error": str(e)}
log = open("/verif/wip/seeds/verify-%s.log" % name).read().split("\n")
meta = {"property": pid, "summary": sm.get("summary"), "needs_to_manifest": sm.get("needs_to_manifest"),
        "files_changed": sm.get("files_changed"),
        "verified_by_coordinator": [l for l in log if l.startswith(("original demo", "patched check", "patched demo", "VERIFIED"))],
        "what_i_ran": ["wip/seeds/verify.sh (fresh worktree of /repo HEAD: build, demo exits 0; apply patch.diff, clean rebuild, make -f Makefile.unx -k check shows no new failure, demo exits non-zero)",
                        "VERIF_REPO=<worktree with patch applied> ./check %s" % pid],
        "detected_by_check": det, "detection_note": note, "seeder_ran": sm.get("ran")}
json.dump(meta, open(d + "/meta.json", "w"), indent=1)
os.remove(d + "/meta.seeder.json")
print("recorded", name)
