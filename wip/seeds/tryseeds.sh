#!/bin/bash
# tryseeds.sh <seedname> <Cnn> <patchfile> <seed1> [seed2 ...]: run the check in the CLONE /var/tmp/vclone (own coq/, evidence/)
# against a worktree of /repo HEAD with the patch applied, once per VERIF_SEED; prints one line per run.
N=$1; P=$2; PATCHF=$3; shift 3; W=/tmp/try2-$N
git -C /repo worktree remove --force $W 2>/dev/null
git -C /repo worktree add --detach $W HEAD >/dev/null 2>&1 || exit 2
(cd $W && git apply $PATCHF) || { echo "$N $P PATCH-DOES-NOT-APPLY"; git -C /repo worktree remove --force $W; exit 2; }
cd ${CLONE:-/var/tmp/vclone} && git checkout -q -- . && git pull -q
for sd in "$@"; do
  VERIF_SEED=$sd VERIF_REPO=$W timeout 2400 ./check $P > /verif/wip/seeds/t2-$N-$P-$sd.out 2>&1; rc=$?
  v=$(grep -c "^VIOLATION" /verif/wip/seeds/t2-$N-$P-$sd.out); nf=$(grep -c "no-failing-input-found" /verif/wip/seeds/t2-$N-$P-$sd.out)
  echo "$N $P seed=$sd exit=$rc violations=$v nfif=$nf :: $(grep -m1 'detail:' /verif/wip/seeds/t2-$N-$P-$sd.out | cut -c1-160)"
done
git -C /repo worktree remove --force $W
