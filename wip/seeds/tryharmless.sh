#!/bin/bash
# tryharmless.sh <tag>: run all 20 quick checks (in the clone) against /tmp/harmless-<tag> as it stands
T=$1; W=/tmp/harmless-$T
cd /var/tmp/vclone && git checkout -q -- . && git pull -q
for i in 01 02 03 04 05 06 07 08 09 10 11 12 13 14 15 16 17 18 19 20; do
  VERIF_REPO=$W timeout 3000 ./check C$i > /verif/wip/seeds/h-$T-C$i.out 2>&1; rc=$?
  echo "harmless-$T C$i exit=$rc $(grep -E '^(OK|VIOLATION)' /verif/wip/seeds/h-$T-C$i.out | head -2 | tr '\n' ' ' | cut -c1-150) :: $(grep -m1 'detail:' /verif/wip/seeds/h-$T-C$i.out | cut -c1-200)"
done
