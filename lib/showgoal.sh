#!/bin/sh
# usage: showgoal.sh File.v LINE  — replace LINE by "Show. admit." and compile to a temp file
f=$1; n=$2
sed "${n}s/.*/  Show. admit./" $f > /tmp/D_$$.v && (cd /verif/coq && coqc -Q . ISAL /tmp/D_$$.v 2>&1 | head -${3:-60}); rm -f /tmp/D_$$.*
