#!/bin/sh
# locked, dependency-aware build of the given targets (e.g. Properties/C09.vo); regenerates
# _CoqProject/Makefile when the set of .v files changed.  usage: lib/coqmake.sh <targets...>
cd "$(dirname "$0")/.." || exit 2
exec python3 - "$@" <<'PY'
import sys; sys.path.insert(0, "lib")
import vlib
ok, log = vlib.coq_make(sys.argv[1:] or ["all"])
print(log[-6000:]); sys.exit(0 if ok else 1)
PY
