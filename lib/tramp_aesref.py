"""Plain reference AES (FIPS-197) used ONLY to compute the secrets set of the C14 register/stack
scan and expanded keys handed to the library as declared inputs: key expansion (encryption
schedule; decryption schedule of the equivalent inverse cipher = reversed, inner keys through
InvMixColumns, which is what AESIMC computes and what isal's exp_key_dec holds), one-block
encryption, multiplication by alpha in GF(2^128) as IEEE 1619 orders the bytes.
Independent of the library; self-checked against FIPS-197 Appendix A/C vectors on import."""

def _xt(a):
    a <<= 1
    return (a ^ 0x11b) & 0xff if a & 0x100 else a

def _mul(a, b):
    r = 0
    while b:
        if b & 1:
            r ^= a
        a = _xt(a)
        b >>= 1
    return r

def _mk_sbox():
    # multiplicative inverse via exponentiation, then the affine map
    sb = [0] * 256
    for x in range(256):
        inv = 0
        if x:
            inv, e, y = 1, 254, x
            while e:
                if e & 1:
                    inv = _mul(inv, y)
                y = _mul(y, y)
                e >>= 1
        r = inv
        for s in (1, 2, 3, 4):
            r ^= ((inv << s) | (inv >> (8 - s))) & 0xff
        sb[x] = r ^ 0x63
    return sb

SBOX = _mk_sbox()

def expand_enc(key):
    """-> list of round keys (16-byte bytes), Nr+1 of them"""
    nk = len(key) // 4
    nr = nk + 6
    w = [list(key[4 * i:4 * i + 4]) for i in range(nk)]
    rc = 1
    for i in range(nk, 4 * (nr + 1)):
        t = list(w[i - 1])
        if i % nk == 0:
            t = t[1:] + t[:1]
            t = [SBOX[b] for b in t]
            t[0] ^= rc
            rc = _xt(rc)
        elif nk > 6 and i % nk == 4:
            t = [SBOX[b] for b in t]
        w.append([a ^ b for a, b in zip(w[i - nk], t)])
    return [bytes(sum(w[4 * r:4 * r + 4], [])) for r in range(nr + 1)]

def _inv_mix_block(b):
    out = bytearray(16)
    for c in range(4):
        a = b[4 * c:4 * c + 4]
        out[4 * c + 0] = _mul(a[0], 14) ^ _mul(a[1], 11) ^ _mul(a[2], 13) ^ _mul(a[3], 9)
        out[4 * c + 1] = _mul(a[0], 9) ^ _mul(a[1], 14) ^ _mul(a[2], 11) ^ _mul(a[3], 13)
        out[4 * c + 2] = _mul(a[0], 13) ^ _mul(a[1], 9) ^ _mul(a[2], 14) ^ _mul(a[3], 11)
        out[4 * c + 3] = _mul(a[0], 11) ^ _mul(a[1], 13) ^ _mul(a[2], 9) ^ _mul(a[3], 14)
    return bytes(out)

def expand_dec(key):
    """decryption schedule as isal stores it: dec[0] = enc[Nr], dec[i] = InvMixColumns(enc[Nr-i]), dec[Nr] = enc[0]"""
    e = expand_enc(key)
    nr = len(e) - 1
    return [e[nr]] + [_inv_mix_block(e[nr - i]) for i in range(1, nr)] + [e[0]]

def encrypt_block(rk, blk):
    s = bytearray(a ^ b for a, b in zip(blk, rk[0]))
    nr = len(rk) - 1
    for r in range(1, nr + 1):
        s = bytearray(SBOX[b] for b in s)
        # shift rows (state is column-major: byte index = 4*col + row)
        s = bytearray(s[4 * ((c + r_) % 4) + r_] for c in range(4) for r_ in range(4))
        if r != nr:
            t = bytearray(16)
            for c in range(4):
                a = s[4 * c:4 * c + 4]
                t[4 * c + 0] = _mul(a[0], 2) ^ _mul(a[1], 3) ^ a[2] ^ a[3]
                t[4 * c + 1] = a[0] ^ _mul(a[1], 2) ^ _mul(a[2], 3) ^ a[3]
                t[4 * c + 2] = a[0] ^ a[1] ^ _mul(a[2], 2) ^ _mul(a[3], 3)
                t[4 * c + 3] = _mul(a[0], 3) ^ a[1] ^ a[2] ^ _mul(a[3], 2)
            s = t
        s = bytearray(a ^ b for a, b in zip(s, rk[r]))
    return bytes(s)

def xts_mul_alpha(t):
    """IEEE 1619: the tweak as a little-endian 128-bit integer, times x, reduced by x^128+x^7+x^2+x+1"""
    v = int.from_bytes(t, "little") << 1
    if v >> 128:
        v = (v & ((1 << 128) - 1)) ^ 0x87
    return v.to_bytes(16, "little")

def _selftest():
    k = bytes(range(16))
    e = expand_enc(k)
    assert e[10].hex() == "13111d7fe3944a17f307a78b4d2b30c5", e[10].hex()
    assert encrypt_block(e, bytes.fromhex("00112233445566778899aabbccddeeff")).hex() == "69c4e0d86a7b0430d8cdb78070b4c55a"
    k = bytes(range(24))
    assert encrypt_block(expand_enc(k), bytes.fromhex("00112233445566778899aabbccddeeff")).hex() == "dda97ca4864cdfe06eaf70a0ec0d7191"
    k = bytes(range(32))
    e = expand_enc(k)
    assert len(e) == 15
    assert encrypt_block(e, bytes.fromhex("00112233445566778899aabbccddeeff")).hex() == "8ea2b7ca516745bfeafc49904b496089"
    # FIPS-197 C.1 equivalent inverse cipher: dw of round 1 = 13aa29be9c8faff6f770f58000f7bf03
    d = expand_dec(bytes(range(16)))
    assert d[0].hex() == "13111d7fe3944a17f307a78b4d2b30c5" and d[1].hex() == "13aa29be9c8faff6f770f58000f7bf03", d[1].hex()

_selftest()
