#!/usr/bin/env python3
"""Assemble MANIFEST.json from lib/manifest_entries.py (one dict per claimed property) and
properties.jsonl (every unclaimed property goes under not_applicable with its reason)."""
import json, os, sys
HERE = os.path.dirname(os.path.abspath(__file__))
sys.path.insert(0, HERE)
import manifest_entries as me
V = os.path.dirname(HERE)
ids = [json.loads(l)["id"] for l in open(os.path.join(V, "properties.jsonl"))]
checks = []
for i in ids:
    e = me.ENTRIES.get(i)
    if not e or not os.path.exists(os.path.join(V, "checks", i.lower() + ".py")):
        continue
    checks.append({
        "property_id": i,
        "quick_cmd": "./check %s --tier quick" % i,
        "thorough_cmd": "./check %s --tier thorough" % i,
        "evidence_file": "evidence/%s.json" % i,
        "replay_cmd_template": "./check %s --replay {path}" % i,
        "engine": "coq",
        "level_claimed": {"category": e.get("category", "proof"), "text": e["text"], "design_ref": "DESIGN.md §4 %s; docs/%s.md" % (i, e["doc"])},
        "level_note": e["note"],
        "technique": e["technique"],
    })
claimed = {c["property_id"] for c in checks}
na = [{"property_id": i, "reason": me.NOT_CLAIMED.get(i, "check not finished in this round (see DESIGN.md §4 %s); nothing is claimed until its Coq obligations and its correspondence both run green on the unchanged tree" % i)}
      for i in ids if i not in claimed]
m = {"version": 1, "setup_cmd": "./setup.sh",
     "hooks": {"guard": "ISAL_CRYPTO_VERIF",
               "enable": "make -f Makefile.unx lib D=ISAL_CRYPTO_VERIF (checks build a scratch copy of /repo's working tree outside /repo; nasm and C get -D ISAL_CRYPTO_VERIF)",
               "baseline_off_cmd": "make -C /repo -j16 check", "source_commits": me.HOOK_COMMITS, "add_only": True},
     "engines": [{"name": "coq", "path": "coq", "serves_properties": sorted(claimed),
                  "kind_free_text": "Coq 8.16.1 development: specs, executable models, proofs, Properties/<id>.v; Gen/*.v regenerated from /repo (sources and built objects) on every run by the translators under tr/"},
                 {"name": "correspondence", "path": "check", "serves_properties": sorted(claimed),
                  "kind_free_text": "extracted OCaml model drivers vs native drivers linking the freshly built library; every implementation family is called directly and through the real dispatcher under a virtual CPUID"}],
     "checks": checks, "not_applicable": na, "notes": me.NOTES}
json.dump(m, open(os.path.join(V, "MANIFEST.json"), "w"), indent=1)
print("MANIFEST: claimed", sorted(claimed))
