#!/bin/sh
# compile ONE Coq file of the development (full .vo), under a timeout, without the build lock.
# usage: lib/coqc1.sh Proofs/Foo.v   (path relative to /verif/coq; T=seconds, default 900)
cd "$(dirname "$0")/../coq" || exit 2
exec timeout "${T:-900}" coqc -q -Q . ISAL -w -notation-overridden,-deprecated-hint-without-locality,-deprecated-instance-without-locality,-deprecated-syntactic-definition "$@"
