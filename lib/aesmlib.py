"""Helpers shared by checks/c03.py and checks/c04.py (AES-XTS, key expansion, CBC): parsing the
driver output lines, buffer-placement draws, family enumeration from the built archive."""
import os, re, subprocess
import vlib


def kv(line):
    """'<id> k v k v name:res name:res ...' -> ({k: v}, [(name, bound, res, flags)])"""
    t = line.split()
    d, calls = {}, []
    i = 1
    while i < len(t):
        if ":" in t[i]:
            name, _, res = t[i].partition(":")
            bound = ""
            if "@" in name:
                name, _, bound = name.partition("@")
            flags = ""
            if "+" in res or "[" in res:
                m = re.search(r"[+\[]", res)
                flags = res[m.start():]
                res = res[:m.start()]
            calls.append((name, bound, res, flags))
            i += 1
        elif t[i] == "rks" and i + 2 < len(t):
            d["rks"] = (t[i + 1], t[i + 2])
            i += 3
        elif i + 1 < len(t):
            d[t[i]] = t[i + 1]
            i += 2
        else:
            d["_trailing"] = t[i]
            i += 1
    return d, calls


def unhex(s):
    return b"" if s in ("-", "", None) else bytes.fromhex(s)


def placement(rng):
    """(mode, align): E = end flush against a PROT_NONE page, S = start right after one,
    I = interior at 64-byte boundary + align"""
    r = rng.below(10)
    if r < 4:
        return "E", 0
    if r < 5:
        return "S", 0
    return "I", rng.below(64)


def sm_bytes(seed, n, off=0):
    """the data both drivers derive from a seed (vlib.SplitMix64(seed).bytes(n) shifted by off)"""
    M = (1 << 64) - 1
    out = bytearray()
    p = off
    while len(out) < n:
        z = (seed + 0x9E3779B97F4A7C15 * (p // 8 + 1)) & M
        z = ((z ^ (z >> 30)) * 0xBF58476D1CE4E5B9) & M
        z = ((z ^ (z >> 27)) * 0x94D049BB133111EB) & M
        z ^= z >> 31
        w = z.to_bytes(8, "little")
        out += w[p % 8:]
        p += 8 - p % 8
    return bytes(out[:n])


def archive_symbols(variant="hook"):
    d = vlib.build(variant)
    out = subprocess.run(["nm", os.path.join(d, "isa-l_crypto.a")], stdout=subprocess.PIPE, stderr=subprocess.DEVNULL,
                         text=True, timeout=120).stdout
    return sorted({l.split()[2] for l in out.split("\n") if len(l.split()) == 3 and l.split()[1] in "Tt"})


def families(symbols, regex, known, exclude=None):
    """symbols matching `regex` (last group: the family suffix) -> ({family: [symbols]}, unknown families)"""
    fam = {}
    for s in symbols:
        m = re.fullmatch(regex, s)
        if exclude and re.fullmatch(exclude, s):
            continue
        if m and not re.search(r"(mbinit|dispatch_init|dispatched|slver.*|init_done)$", s):
            fam.setdefault(m.group(m.lastindex), []).append(s)
    return fam, sorted(set(fam) - set(known))


def first_diff(a, b):
    n = min(len(a), len(b))
    for i in range(n):
        if a[i] != b[i]:
            return i
    return n if len(a) != len(b) else -1


def balanced(lines, weight):
    """order case lines so that vlib.run_driver's round-robin sharding is balanced"""
    return [l for _, l in sorted(zip([-weight(l) for l in lines], lines), key=lambda p: p[0])]


def with_retry(f, n=3):
    """the library cache keeps only the two newest trees; when another check running at the same
    time on a different tree prunes ours between the build and the run, build again"""
    import time
    for attempt in range(n):
        try:
            return f()
        except (FileNotFoundError, NotADirectoryError):
            if attempt == n - 1:
                raise
            vlib._tree_id = None
            time.sleep(3 + 5 * attempt)
