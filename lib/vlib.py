"""Shared machinery for the /verif checks: tree id, cached library builds, Coq make,
OCaml driver builds, PRNG, evidence and violation reporting."""
import fcntl, hashlib, json, os, re, shutil, subprocess, sys, time

VERIF = os.path.dirname(os.path.dirname(os.path.abspath(__file__)))
REPO = os.environ.get("VERIF_REPO", "/repo")
CACHE = os.environ.get("VERIF_CACHE", "/var/tmp/isal-verif-cache")
COQ = os.path.join(VERIF, "coq")
GUARD = "ISAL_CRYPTO_VERIF"
NCPU = os.cpu_count() or 4

# ----------------------------------------------------------------------------- misc

def sh(cmd, cwd=None, timeout=None, check=True, env=None, capture=True, input=None):
    """run a command (list or string); returns (rc, stdout+stderr)"""
    p = subprocess.run(cmd, cwd=cwd, shell=isinstance(cmd, str), timeout=timeout,
                       stdout=subprocess.PIPE if capture else None,
                       stderr=subprocess.STDOUT if capture else None,
                       env=env, input=input, text=True, errors="replace")
    if check and p.returncode != 0:
        raise RuntimeError("command failed (%d): %s\n%s" % (p.returncode, cmd, (p.stdout or "")[-4000:]))
    return p.returncode, p.stdout or ""


class Lock:
    def __init__(self, name):
        os.makedirs(CACHE, exist_ok=True)
        self.path = os.path.join(CACHE, name + ".lock")
    def __enter__(self):
        self.f = open(self.path, "w")
        fcntl.flock(self.f, fcntl.LOCK_EX)
        return self
    def __exit__(self, *a):
        fcntl.flock(self.f, fcntl.LOCK_UN)
        self.f.close()


class SplitMix64:
    """the one PRNG every generator draws from (seeded by VERIF_SEED)"""
    M = (1 << 64) - 1
    def __init__(self, seed):
        self.s = seed & self.M
    def next(self):
        self.s = (self.s + 0x9E3779B97F4A7C15) & self.M
        z = self.s
        z = ((z ^ (z >> 30)) * 0xBF58476D1CE4E5B9) & self.M
        z = ((z ^ (z >> 27)) * 0x94D049BB133111EB) & self.M
        return z ^ (z >> 31)
    def below(self, n):
        return self.next() % n if n > 0 else 0
    def choice(self, l):
        return l[self.below(len(l))]
    def bytes(self, n):
        out = bytearray()
        while len(out) < n:
            out += self.next().to_bytes(8, "little")
        return bytes(out[:n])
    def fork(self):
        return SplitMix64(self.next())


def seed():
    try:
        return int(os.environ.get("VERIF_SEED", "1"))
    except ValueError:
        return 1


def tier(argv_tier=None):
    t = argv_tier or os.environ.get("VERIF_TIER") or "quick"
    return "thorough" if t.startswith("t") else "quick"

# ----------------------------------------------------------------------------- tree id and library builds

_tree_id = None

def repo_files():
    rc, out = sh(["git", "-C", REPO, "ls-files", "-z"])
    return [f for f in out.split("\0") if f]


def tree_id():
    """hash of the tracked files' current working-tree contents"""
    global _tree_id
    if _tree_id:
        return _tree_id
    h = hashlib.sha256()
    for f in sorted(repo_files()):
        p = os.path.join(REPO, f)
        h.update(f.encode() + b"\0")
        try:
            with open(p, "rb") as fh:
                h.update(hashlib.sha256(fh.read()).digest())
        except (FileNotFoundError, IsADirectoryError):
            h.update(b"<missing>")
    _tree_id = h.hexdigest()[:20]
    return _tree_id


VARIANTS = {
    # name: extra make arguments
    "hook":  ["D=" + GUARD],
    "fips":  ["D=" + GUARD, "FIPS_MODE=y"],
    "plain": [],
    "plainfips": ["FIPS_MODE=y"],
}


def _prune_cache(keep):
    try:
        ents = [e for e in os.listdir(CACHE) if os.path.isdir(os.path.join(CACHE, e)) and e != keep]
    except FileNotFoundError:
        return
    ents.sort(key=lambda e: os.path.getmtime(os.path.join(CACHE, e)), reverse=True)
    for e in ents[int(os.environ.get("VERIF_CACHE_KEEP", "12")):]:
        shutil.rmtree(os.path.join(CACHE, e), ignore_errors=True)


def build(variant="hook"):
    """Build /repo's current working tree (tracked files) as a static library in a scratch
    copy outside /repo and /verif; cache archive + objects under CACHE/<tree-id>/<variant>.
    Returns the cache directory (contains isa-l_crypto.a, obj/*.o, src -> nothing)."""
    tid = tree_id()
    d = os.path.join(CACHE, tid, variant)
    ok = os.path.join(d, "OK")
    with Lock("build-" + variant):
        if os.path.exists(ok):
            os.utime(os.path.join(CACHE, tid))
            return d
        os.makedirs(os.path.join(CACHE, tid), exist_ok=True)
        _prune_cache(tid)
        scratch = "/var/tmp/isal-verif-build-%d-%s" % (os.getpid(), variant)
        shutil.rmtree(scratch, ignore_errors=True)
        os.makedirs(scratch)
        try:
            files = "\0".join(repo_files())
            subprocess.run(["rsync", "-a", "--from0", "--files-from=-", REPO + "/", scratch + "/"],
                           input=files, text=True, check=True)
            t0 = time.time()
            rc, out = sh(["make", "-f", "Makefile.unx", "-j%d" % NCPU, "lib"] + VARIANTS[variant],
                         cwd=scratch, timeout=1500, check=False)
            if rc != 0:
                raise RuntimeError("library build (%s) failed:\n%s" % (variant, out[-6000:]))
            shutil.rmtree(d, ignore_errors=True)
            os.makedirs(os.path.join(d, "obj"))
            shutil.copy(os.path.join(scratch, "bin", "isa-l_crypto.a"), d)
            for f in os.listdir(os.path.join(scratch, "bin")):
                if f.endswith(".o"):
                    shutil.copy(os.path.join(scratch, "bin", f), os.path.join(d, "obj", f))
            with open(ok, "w") as fh:
                fh.write("built in %.1fs\n" % (time.time() - t0))
        finally:
            shutil.rmtree(scratch, ignore_errors=True)
    return d


def build_many(variants):
    """build several variants in parallel"""
    import concurrent.futures as cf
    with cf.ThreadPoolExecutor(len(variants)) as ex:
        return dict(zip(variants, ex.map(build, variants)))


def cc_harness(name, sources, variant="hook", extra=(), libs=()):
    """compile a native harness from /verif/harness against the cached library; the binary is
    keyed by the hash of its sources so an edited harness is rebuilt."""
    d = build(variant)
    h = hashlib.sha256()
    srcs = [os.path.join(VERIF, "harness", s) for s in sources]
    for s in srcs + [os.path.join(VERIF, "harness", f) for f in sorted(os.listdir(os.path.join(VERIF, "harness"))) if f.endswith(".h")]:
        with open(s, "rb") as fh:
            h.update(fh.read())
    h.update(" ".join(extra).encode())
    out = os.path.join(d, "bin-%s-%s" % (name, h.hexdigest()[:12]))
    with Lock("cc-" + name):
        if not os.path.exists(out):
            defs = ["-DSAFE_PARAM", "-DSAFE_DATA"]
            if "fips" in variant:
                defs.append("-DFIPS_MODE")
            if variant in ("hook", "fips"):
                defs.append("-D" + GUARD)
            cmd = (["gcc", "-O1", "-g", "-Wall", "-Wno-unused", "-I", os.path.join(REPO, "include"), "-I", REPO,
                    "-I", os.path.join(VERIF, "harness")] + defs + list(extra) + srcs +
                   [os.path.join(d, "isa-l_crypto.a")] + list(libs) + ["-lpthread", "-o", out + ".tmp"])
            sh(cmd, timeout=600)
            os.rename(out + ".tmp", out)
    return out

# ----------------------------------------------------------------------------- Coq

def write_if_changed(path, content):
    try:
        with open(path) as fh:
            if fh.read() == content:
                return False
    except FileNotFoundError:
        pass
    os.makedirs(os.path.dirname(path), exist_ok=True)
    with open(path, "w") as fh:
        fh.write(content)
    return True


COQC_TIMEOUT = int(os.environ.get("VERIF_COQC_TIMEOUT", "1500"))
COQ_DIRS = ["Base", "Spec", "Model", "Gen", "Proofs", "Properties", "Extract"]


def coq_project():
    """_CoqProject is derived from the .v files present (coqdep orders them); rewritten only
    when the file set changes"""
    files = []
    for d in COQ_DIRS:
        dd = os.path.join(COQ, d)
        if os.path.isdir(dd):
            files += sorted(os.path.join(d, f) for f in os.listdir(dd) if f.endswith(".v") and not f.startswith("."))
    txt = ("-Q . ISAL\n-arg -w -arg -notation-overridden,-deprecated-hint-without-locality,"
           "-deprecated-instance-without-locality,-deprecated-syntactic-definition\n" + "\n".join(files) + "\n")
    return write_if_changed(os.path.join(COQ, "_CoqProject"), txt)


def coq_makefile():
    mk = os.path.join(COQ, "Makefile")
    changed = coq_project()
    if changed or not os.path.exists(mk):
        sh(["coq_makefile", "-f", "_CoqProject", "-o", "Makefile"], cwd=COQ)
    lc = os.path.join(COQ, ".lia.cache")
    if os.path.exists(lc) and os.path.getsize(lc) > 50 << 20:
        os.remove(lc)


def coq_make(targets, timeout=1800):
    """full .vo build of the given targets (and everything they import).  Returns
    (ok, log).  A timeout or error is a broken obligation, never a pass."""
    with Lock("coq"):
        coq_makefile()
        try:
            # every coqc under its own timeout: a looping proof is a broken obligation, not a hang
            rc, out = sh(["timeout", str(timeout), "make", "-k", "-j%d" % NCPU, "COQC=timeout %d coqc" % COQC_TIMEOUT] + list(targets),
                         cwd=COQ, check=False, timeout=timeout + 30)
        except subprocess.TimeoutExpired:
            return False, "coq make timed out"
    return rc == 0, out


def coq_obligations(vfile):
    """count Theorem/Lemma/Example/Corollary statements in a Properties file and collect the
    `Print Assumptions` results from the compile log of that file."""
    with open(os.path.join(COQ, vfile)) as fh:
        src = fh.read()
    names = re.findall(r"^\s*(?:Theorem|Lemma|Example|Corollary)\s+([A-Za-z0-9_']+)", src, re.M)
    return names


def coq_assumptions(vfile):
    """recompile nothing: run coqc on a tiny file that Requires the property file and prints
    assumptions for each of its theorems; returns {name: text}"""
    mod = "ISAL." + vfile[:-2].replace("/", ".")
    names = coq_obligations(vfile)
    body = "Require Import %s.\n" % mod + "".join(
        'Goal True. idtac "@@%s". Abort.\nPrint Assumptions %s.\n' % (n, n) for n in names)
    tmp = os.path.join(CACHE, "pa_%d.v" % os.getpid())
    with open(tmp, "w") as fh:
        fh.write(body)
    try:
        rc, out = sh(["coqc", "-Q", COQ, "ISAL", tmp], check=False, timeout=600, cwd=CACHE)
    finally:
        for ext in (".v", ".vo", ".vok", ".vos", ".glob"):
            try:
                os.remove(tmp[:-2] + ext)
            except FileNotFoundError:
                pass
        try:
            os.remove(os.path.join(CACHE, ".pa_%d.aux" % os.getpid()))
        except FileNotFoundError:
            pass
    res = {}
    if rc != 0:
        return {"<error>": out[-2000:]}
    parts = out.split("@@")
    for p in parts[1:]:
        name, _, rest = p.partition("\n")
        res[name.strip()] = " ".join(rest.split())
    return res

# ----------------------------------------------------------------------------- OCaml drivers

def ocaml_driver(name, ext=None):
    """build /verif/ocaml/<name>_driver.ml against coq/Extract/out/<ext>.ml (what
    coq/Extract/<ext>.v extracts; compiled under the module name Isal so that conv.ml and
    every driver just `open Isal`) and the hand-written glue ocaml/conv.ml.  Returns the binary."""
    ext = ext or name.capitalize()
    outdir = os.path.join(VERIF, "ocaml", "_build")
    os.makedirs(outdir, exist_ok=True)
    exe = os.path.join(outdir, name + "_driver")
    extracted = os.path.join(COQ, "Extract", "out", ext + ".ml")
    conv = os.path.join(VERIF, "ocaml", "conv.ml")
    drv = os.path.join(VERIF, "ocaml", name + "_driver.ml")
    with Lock("ocaml"):
        lib = os.path.join(outdir, "lib-" + ext)
        stamp = os.path.join(lib, "Isal.cmx")
        if (not os.path.exists(stamp) or
                any(os.path.getmtime(stamp) < os.path.getmtime(p) for p in (extracted, conv))):
            shutil.rmtree(lib, ignore_errors=True)
            os.makedirs(lib)
            shutil.copy(extracted, os.path.join(lib, "Isal.ml"))
            shutil.copy(extracted + "i", os.path.join(lib, "Isal.mli"))
            shutil.copy(conv, lib)
            sh(["ocamlfind", "ocamlopt", "-O3", "-w", "-a", "-c", "Isal.mli", "Isal.ml", "conv.ml"],
               cwd=lib, timeout=900)
        need = (not os.path.exists(exe) or
                any(os.path.getmtime(exe) < os.path.getmtime(p) for p in (stamp, drv)))
        if need:
            work = os.path.join(outdir, name)
            shutil.rmtree(work, ignore_errors=True)
            os.makedirs(work)
            shutil.copy(drv, work)
            sh(["ocamlfind", "ocamlopt", "-O3", "-w", "-a", "-I", lib, os.path.join(lib, "Isal.cmx"),
                os.path.join(lib, "conv.cmx"), name + "_driver.ml", "-o", exe], cwd=work, timeout=900)
    return exe

# ----------------------------------------------------------------------------- findings, evidence, verdicts

def known_findings():
    p = os.path.join(VERIF, "known_findings.json")
    try:
        with open(p) as fh:
            return json.load(fh)
    except FileNotFoundError:
        return {"known": [], "fixed": []}


class Report:
    """collects what one check run covered and decides the exit status"""
    def __init__(self, pid, level, tier_, checker_cmd):
        self.pid, self.level, self.tier = pid, level, tier_
        self.t0 = time.time()
        self.cov = {"obligations": 0, "discharged": 0, "checker_cmd": checker_cmd, "trusted_base": [],
                    "evaluations": 0, "distinct_nontrivial": 0, "rule": "", "samples": [],
                    "traces_validated_against_impl": 0}
        self.assumptions = []
        self.violations = []      # (what, replay-dict)
        self.known_hits = []
        self.distinct = set()
        self.kf = known_findings()
        self.notes = {}

    def obligation(self, name, ok, detail=""):
        self.cov["obligations"] += 1
        if ok:
            self.cov["discharged"] += 1
        self.cov.setdefault("obligation_list", []).append({"name": name, "ok": bool(ok), **({"detail": detail} if detail else {})})

    def case(self, key, nontrivial=True):
        self.cov["evaluations"] += 1
        if nontrivial:
            self.distinct.add(key)

    def sample(self, s):
        if len(self.cov["samples"]) < 8:
            self.cov["samples"].append(s)

    def match_known(self, sig):
        """sig: dict describing the failure; a known finding matches when all its `match`
        keys equal the signature's"""
        for k in self.kf.get("known", []):
            if k.get("property") != self.pid:
                continue
            m = k.get("match", {})
            if all(str(sig.get(a)) == str(b) for a, b in m.items()):
                return k
        return None

    def violation(self, what, replay, sig=None, no_input=False):
        k = self.match_known(sig or {})
        if k is not None:
            if k["id"] not in [x["id"] for x in self.known_hits]:
                self.known_hits.append(k)
            return False
        self.violations.append((what, replay, no_input))
        return True

    def finish(self):
        os.makedirs(os.path.join(VERIF, "evidence"), exist_ok=True)
        os.makedirs(os.path.join(VERIF, "replays"), exist_ok=True)
        self.cov["distinct_nontrivial"] = len(self.distinct)
        for k in self.known_hits:
            print("KNOWN-FINDING: property=%s %s" % (self.pid, k["what"]))
        lines = []
        seen = set()
        for what, replay, no_input in self.violations:
            blob = json.dumps(replay, sort_keys=True, default=str)
            hid = hashlib.sha256(blob.encode()).hexdigest()[:12]
            if hid in seen:
                continue
            seen.add(hid)
            path = os.path.join(VERIF, "replays", "%s-%s.json" % (self.pid, hid))
            with open(path, "w") as fh:
                json.dump({"property": self.pid, "what": what, "replay": replay,
                           "tree_id": tree_id(), "seed": seed()}, fh, indent=1, default=str)
            lines.append("VIOLATION property=%s replay=%s%s" % (self.pid, path, " no-failing-input-found" if no_input else ""))
            if len(lines) >= 10:
                break
        ev = {"property_id": self.pid, "tier": self.tier, "seed": seed(), "level": self.level,
              "coverage": dict(self.cov, **self.notes), "assumptions": self.assumptions,
              "wall_s": round(time.time() - self.t0, 2), "violations": len(lines),
              "known_findings_hit": [k["id"] for k in self.known_hits], "tree_id": tree_id()}
        with open(os.path.join(VERIF, "evidence", self.pid + ".json"), "w") as fh:
            json.dump(ev, fh, indent=1, default=str)
        for l in lines:
            print(l)
        for what, _, _ in self.violations[:10]:
            print("  detail: " + what[:300])
        if not lines:
            print("OK property=%s obligations=%d/%d evaluations=%d distinct=%d wall=%.1fs" % (
                self.pid, self.cov["discharged"], self.cov["obligations"], self.cov["evaluations"],
                len(self.distinct), time.time() - self.t0))
        return 1 if lines else 0

# ----------------------------------------------------------------------------- per-property Coq step

TRUSTED_BASE = [
    "Coq 8.16.1 kernel and vm_compute (no native_compute); full .vo build, no -vos",
    "no axioms declared by this development; Print Assumptions output recorded per theorem",
    "extraction with ExtrOcamlBasic only (bool, option, unit, list, prod, sumbool, sumor -> OCaml); nat/positive/N/Z stay inductive; OCaml 4.13.1",
    "hand-written OCaml glue ocaml/conv.ml (line parser/printer) and the Python translators under tr/",
    "native harness (C + assembly, observes only); gcc, nasm, binutils",
]


def first_coq_error(log):
    m = re.search(r'File "([^"]+)", line (\d+), characters [\d-]+:\s*\n(Error:.*?)(?:\n\n|\nmake|\Z)', log, re.S)
    if m:
        return {"file": m.group(1), "line": int(m.group(2)), "error": " ".join(m.group(3).split())[:600]}
    return {"file": "?", "line": 0, "error": log[-600:]}


def coq_step(rep, pid, gen=None, extra_targets=(), timeout=1800, extract=()):
    """regenerate Gen files, build the extractions named in `extract` (models only: they
    still build when a proof is broken) and the property's obligations.
    Returns (proofs_ok, broken-info or None)."""
    for path, content in (gen or {}).items():
        write_if_changed(os.path.join(COQ, path), content)
    if isinstance(extract, str):
        extract = (extract,)
    if extract:
        os.makedirs(os.path.join(COQ, "Extract", "out"), exist_ok=True)
        ok_x, log_x = coq_make(["Extract/%s.vo" % e for e in extract], timeout=timeout)
        if not ok_x:
            raise RuntimeError("model/extraction build failed: %s" % first_coq_error(log_x))
    vfile = "Properties/%s.v" % pid
    ok, log = coq_make([vfile + "o"] + list(extra_targets), timeout=timeout)
    names = coq_obligations(vfile)
    broken = None
    if ok:
        ass = coq_assumptions(vfile)
        for n in names:
            a = ass.get(n, "?")
            closed = "Closed under the global context" in a
            rep.obligation(n, True, a if not closed else "closed under the global context")
        rep.cov["axioms"] = sorted({a for a in ass.values() if "Closed under the global context" not in a})
    else:
        broken = first_coq_error(log)
        for n in names:
            rep.obligation(n, False, "not checked: %s:%d %s" % (broken["file"], broken["line"], broken["error"][:200]))
    rep.cov["trusted_base"] = list(TRUSTED_BASE)
    return ok, broken


def run_driver(exe, cases_text, args=(), timeout=1800, shards=None):
    """run a line-oriented driver over the case text, sharded over the cores; returns
    (stdout lines in case order, stderr text)"""
    lines = [l for l in cases_text.split("\n") if l.strip()]
    shards = shards or min(NCPU, max(1, len(lines) // 8))
    import concurrent.futures as cf
    chunks = [lines[i::shards] for i in range(shards)]
    def one(ch):
        p = subprocess.run([exe] + list(args), input="\n".join(ch) + "\n", stdout=subprocess.PIPE,
                           stderr=subprocess.PIPE, text=True, timeout=timeout, errors="replace")
        return p.returncode, p.stdout, p.stderr
    with cf.ThreadPoolExecutor(shards) as ex:
        res = list(ex.map(one, chunks))
    out = {}
    err = []
    for (rc, so, se), ch in zip(res, chunks):
        err.append(se)
        got = [l for l in so.split("\n") if l.strip()]
        # every driver prints exactly one line per case, starting with the case id
        ids = [l.split()[1] for l in ch]
        bymap = {}
        for l in got:
            bymap.setdefault(l.split()[0], l)
        for i in ids:
            out[i] = bymap.get(i, i + " <no-output rc=%d>" % rc)
    return out, "".join(err)


def ocaml_driver_glue(name, ext, glue):
    """like ocaml_driver, for extractions in which Coq's `string` type occurs (it extracts to
    an OCaml type named `string`, which ocaml/conv.ml — written for OCaml's own string — cannot
    be compiled against after `open Isal`): the hand-written glue is ocaml/<glue> instead of
    conv.ml, compiled under the module name Conv all the same.  (added for C12/dispatch)"""
    outdir = os.path.join(VERIF, "ocaml", "_build")
    os.makedirs(outdir, exist_ok=True)
    exe = os.path.join(outdir, name + "_driver")
    extracted = os.path.join(COQ, "Extract", "out", ext + ".ml")
    conv = os.path.join(VERIF, "ocaml", glue)
    drv = os.path.join(VERIF, "ocaml", name + "_driver.ml")
    with Lock("ocaml"):
        lib = os.path.join(outdir, "lib-" + ext)
        stamp = os.path.join(lib, "Isal.cmx")
        if (not os.path.exists(stamp) or
                any(os.path.getmtime(stamp) < os.path.getmtime(p) for p in (extracted, conv))):
            shutil.rmtree(lib, ignore_errors=True)
            os.makedirs(lib)
            shutil.copy(extracted, os.path.join(lib, "Isal.ml"))
            shutil.copy(extracted + "i", os.path.join(lib, "Isal.mli"))
            shutil.copy(conv, os.path.join(lib, "conv.ml"))
            sh(["ocamlfind", "ocamlopt", "-O2", "-w", "-a", "-c", "Isal.mli", "Isal.ml", "conv.ml"],
               cwd=lib, timeout=900)
        need = (not os.path.exists(exe) or
                any(os.path.getmtime(exe) < os.path.getmtime(p) for p in (stamp, drv)))
        if need:
            work = os.path.join(outdir, name)
            shutil.rmtree(work, ignore_errors=True)
            os.makedirs(work)
            shutil.copy(drv, work)
            sh(["ocamlfind", "ocamlopt", "-O2", "-w", "-a", "-I", lib, os.path.join(lib, "Isal.cmx"),
                os.path.join(lib, "conv.cmx"), name + "_driver.ml", "-o", exe], cwd=work, timeout=900)
    return exe
