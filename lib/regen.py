#!/usr/bin/env python3
"""Regenerate every coq/Gen/*.v from /repo's current tree: each checks/cNN.py that defines
gen() returns {path under coq/: content}.  Used by setup.sh; every check also regenerates its
own files on every run."""
import importlib, os, sys
HERE = os.path.dirname(os.path.abspath(__file__))
sys.path.insert(0, HERE); sys.path.insert(0, os.path.dirname(HERE)); sys.path.insert(0, os.path.join(os.path.dirname(HERE), "tr"))
import vlib

def modules():
    d = os.path.join(vlib.VERIF, "checks")
    for f in sorted(os.listdir(d)):
        if f.startswith("c") and f.endswith(".py") and f[1:-3].isdigit():
            yield importlib.import_module("checks." + f[:-3])

def main():
    for m in modules():
        g = getattr(m, "gen", None)
        if g:
            for path, content in g().items():
                vlib.write_if_changed(os.path.join(vlib.COQ, path), content)
    vlib.coq_project()

if __name__ == "__main__":
    main()
