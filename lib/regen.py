#!/usr/bin/env python3
"""regenerate every coq/Gen/*.v that needs only /repo's sources (no built objects)"""
import os, sys
HERE = os.path.dirname(os.path.abspath(__file__))
sys.path.insert(0, HERE); sys.path.insert(0, os.path.join(os.path.dirname(HERE), "tr"))
import vlib
import roll_table
vlib.write_if_changed(os.path.join(vlib.COQ, "Gen/RollTableGen.v"), roll_table.generate(vlib.REPO))
