#!/usr/bin/env python3
"""validate MANIFEST.json and every evidence/*.json against the schemas in /root/.vp
(run with python3-vt, which has jsonschema); also cross-checks ids against properties.jsonl"""
import glob, json, os, sys
import jsonschema
V = os.path.dirname(os.path.dirname(os.path.abspath(__file__)))
S = "/root/.vp"
bad = 0
m = json.load(open(os.path.join(V, "MANIFEST.json")))
jsonschema.validate(m, json.load(open(os.path.join(S, "MANIFEST.schema.json"))))
ids = [json.loads(l)["id"] for l in open(os.path.join(V, "properties.jsonl"))]
claimed = [c["property_id"] for c in m["checks"]]
na = [c["property_id"] for c in m.get("not_applicable", [])]
for i in ids:
    if (i in claimed) == (i in na):
        print("MANIFEST: %s claimed=%s not_applicable=%s" % (i, i in claimed, i in na)); bad += 1
es = json.load(open(os.path.join(S, "EVIDENCE.schema.json")))
for c in m["checks"]:
    p = os.path.join(V, c["evidence_file"])
    if not os.path.exists(p):
        print("missing evidence", p); bad += 1; continue
    e = json.load(open(p))
    try:
        jsonschema.validate(e, es)
    except jsonschema.ValidationError as ex:
        print("evidence %s invalid: %s" % (p, ex.message[:300])); bad += 1
    if e.get("level") != c["level_claimed"]["category"]:
        print("evidence %s level %s != claimed %s" % (p, e.get("level"), c["level_claimed"]["category"])); bad += 1
print("validate: %d problem(s); claimed=%s" % (bad, ",".join(claimed)))
sys.exit(1 if bad else 0)
