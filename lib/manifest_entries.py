"""Per-property MANIFEST text (coordinator-owned).  lib/mkmanifest.py assembles MANIFEST.json."""
HOOK_COMMITS = ["4e4da96"]
NOTES = "See DESIGN.md. known_findings.json lists fixed and known defects. seeded/ holds independently produced breaking changes and which check catches each."
NOT_CLAIMED = {}
ENTRIES = {
 "C09": {
  "doc": "C09 (DESIGN.md)",
  "text": 'Coq theorems (Properties/C09.v) prove for every window 1..48, every reachable state, every buffer, mask and trigger that the model of rolling_hash2_run reports exactly the first hit of the window hash (else consumes the buffer), that boundaries over a stream are independent of how it is cut into run calls, that the hash is a closed-form function of the window bytes and the table, and that the table regenerated from the source equals the pinned release table. The model is tied to the code on every run by regenerating the table from rolling_hash2_table.h and by call-by-call white-box correspondence with the real library through the real dispatcher for all three scan families.',
  "note": 'Trusted: Coq kernel + vm_compute, extraction (ExtrOcamlBasic), OCaml glue, table translator, native driver. The three scan routines (C, SSE, AVX2 assembly) are modelled by one Gallina scan function and tied to it on generated cases only; max_len >= 2^31 is compared with a C transcription of run_spec (thorough tier).',
  "technique": 'Coq proof (induction over buffers, window-hash algebra) + regenerated table + differential correspondence of extracted model vs all families',
 },
}
