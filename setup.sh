#!/bin/sh
# MANIFEST.setup_cmd: build the framework from files on disk only (offline).
set -e
cd "$(dirname "$0")"
# 1. no forbidden vernacular anywhere in the development
if grep -rnE '\b(Admitted|admit|Axiom|Parameter|Conjecture|Admit Obligations)\b|Unset Guard|bypass_check|type-in-type|impredicative-set' \
     --include=*.v coq | grep -v '^coq/Gen/' ; then
  echo "forbidden vernacular found" >&2; exit 1
fi
# 2. regenerate the Gen files from /repo's current tree, clean full build of the Coq development
python3 lib/regen.py
cd coq
coq_makefile -f _CoqProject -o Makefile >/dev/null
make -j"$(nproc)" >/dev/null 2>coq_build.err || { tail -50 coq_build.err; exit 1; }
cd ..
# 3. OCaml drivers
python3 - <<'PY'
import sys; sys.path.insert(0, "lib")
import vlib, os
for f in sorted(os.listdir("ocaml")):
    if f.endswith("_driver.ml"):
        vlib.ocaml_driver(f[:-len("_driver.ml")])
PY
echo "setup ok"
