#!/bin/sh
# MANIFEST.setup_cmd: build the framework from files on disk only (offline).
set -e
cd "$(dirname "$0")"
# 1. no forbidden vernacular anywhere in the development
if grep -rnE '\b(Admitted|admit|Axiom|Parameter|Conjecture|Admit Obligations)\b|Unset Guard|bypass_check|type-in-type|impredicative-set' \
     --include=*.v coq | grep -v '^coq/Gen/' | grep -vE '\(\*.*(Admitted|admit|Axiom|Parameter).*\*\)' ; then
  echo "forbidden vernacular found" >&2; exit 1
fi
# 2. build the library variants the checks use (cached by tree id), regenerate the Gen files
#    from /repo's current tree, clean full build of the Coq development
python3 - <<'PY'
import sys; sys.path.insert(0, "lib")
import vlib
vlib.build_many(["hook", "fips", "plain"])
PY
python3 lib/regen.py
cd coq
mkdir -p Extract/out
coq_makefile -f _CoqProject -o Makefile >/dev/null
# -k: a file that does not build (work in progress for a property not yet claimed) must not
# stop the rest; what the claimed checks need is verified right below
timeout 3000 make -k -j"$(nproc)" COQC="timeout 1500 coqc" >/dev/null 2>coq_build.err || { echo "warning: some Coq files did not build:"; grep -E '^File|Error' coq_build.err | head -20; }
cd ..
python3 - <<'PY'
import json, os, sys
m = json.load(open("MANIFEST.json"))
missing = [c["property_id"] for c in m["checks"] if not os.path.exists("coq/Properties/%s.vo" % c["property_id"])]
if missing:
    print("setup: Coq obligations of claimed properties did not build:", missing); sys.exit(1)
PY
# 3. OCaml drivers (each checks/cNN.py lists the (driver, extraction) pairs it uses)
python3 - <<'PY'
import sys; sys.path.insert(0, "lib"); sys.path.insert(0, ".")
import vlib, regen
seen = set()
for m in regen.modules():
    for drv, ext in getattr(m, "DRIVERS", []):
        if (drv, ext) not in seen:
            seen.add((drv, ext)); vlib.ocaml_driver(drv, ext)
    bd = getattr(m, "build_drivers", None)      # checks with their own driver glue
    if bd:
        bd()
PY
echo "setup ok"
