#!/bin/sh
# MANIFEST.setup_cmd: build the framework from files on disk only (offline).
set -e
cd "$(dirname "$0")"
# 1. no forbidden vernacular anywhere in the development
if grep -rnE '\b(Admitted|admit|Axiom|Parameter|Conjecture|Admit Obligations)\b|Unset Guard|bypass_check|type-in-type|impredicative-set' \
     --include=*.v coq | grep -v '^coq/Gen/' | grep -vE '\(\*.*(Admitted|admit|Axiom|Parameter).*\*\)' ; then
  echo "forbidden vernacular found" >&2; exit 1
fi
# 2. build the library variants the checks use (cached by tree id), regenerate the Gen files
#    from /repo's current tree, clean full build of the Coq development
python3 - <<'PY'
import sys; sys.path.insert(0, "lib")
import vlib
vlib.build_many(["hook", "fips", "plain"])
PY
python3 lib/regen.py
cd coq
mkdir -p Extract/out
coq_makefile -f _CoqProject -o Makefile >/dev/null
make -j"$(nproc)" >/dev/null 2>coq_build.err || { tail -50 coq_build.err; exit 1; }
cd ..
# 3. OCaml drivers (each checks/cNN.py lists the (driver, extraction) pairs it uses)
python3 - <<'PY'
import sys; sys.path.insert(0, "lib"); sys.path.insert(0, ".")
import vlib, regen
seen = set()
for m in regen.modules():
    for drv, ext in getattr(m, "DRIVERS", []):
        if (drv, ext) not in seen:
            seen.add((drv, ext)); vlib.ocaml_driver(drv, ext)
PY
echo "setup ok"
